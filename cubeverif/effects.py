"""EFFECTS - write inventory and freshness classification.

Every construct that can modify an existing object is collected: subscript / attribute
stores, augmented assignments, `del`, calls of mutating methods, `out=` arguments of numpy
functions.  The object written to is classified by where its root comes from in the
enclosing function:

  Fresh   - created in this function (literal, comprehension, constructor, numpy creator,
            arithmetic result, copy) - writing it cannot be observed elsewhere
  Owned   - reachable from the caller's response / transforms objects
  Shared  - any other attribute read (possibly a cached lazyproperty value) or parameter
  Elem    - element of a container whose elements were not created here
"""
from __future__ import annotations

import ast
from dataclasses import dataclass
from typing import Dict, List, Optional, Set, Tuple

from .loader import Member, Repo
from .symex import u

MUTATORS = {
    "append", "insert", "extend", "pop", "update", "setdefault", "clear", "remove", "sort", "reverse", "popitem",
    "fill", "put", "resize", "partition", "__setitem__", "itemset", "setflags", "add", "discard",
}
NP_CREATORS = {
    "array", "zeros", "ones", "full", "empty", "zeros_like", "ones_like", "full_like", "empty_like", "concatenate", "hstack", "vstack",
    "stack", "block", "repeat", "tile", "sum", "nansum", "sqrt", "abs", "power", "where", "fromiter", "arange", "cumsum", "nan_to_num",
    "logical_and", "logical_or", "isnan", "divide", "multiply", "add", "subtract", "median", "mean", "setdiff1d", "argwhere", "convolve",
    "apply_along_axis", "min", "max", "prod", "copy", "asarray_chkfinite",
}
FRESH_BUILTINS = {"list", "dict", "tuple", "set", "frozenset", "sorted", "range", "enumerate", "zip", "str", "int", "float", "bool", "len"}
OWNED_ROOTS = ("self._cube_response", "self._dimension_dict", "self._dimension_transforms_dict", "self._cube_dict", "self._unshimmed_dimension_dict",
               "self._unshimmed_dimension_transforms_dict", "self._cube_response_arg", "self._cube_responses", "self._transforms_dicts",
               "self._transforms_dict", "self._transforms_arg", "self._insertion_dicts", "self._subtotal_dict", "self._element_dict",
               "self._element_transforms_dict", "self._smoothing_dict")
OWNED_PARAMS = {"response", "transforms", "cube_responses", "summary_cube_resp", "cube_response", "dimension_dict", "dimension_transforms",
                "dimension_transforms_dict", "element_transforms", "cube_dict", "insertion_dicts", "typedef", "dicts", "element_dict"}


@dataclass
class WriteSite:
    member: Member
    kind: str  # store | augstore | del | call | out-arg | attr-store
    target: str  # normalised text of the written expression
    root: str
    cls: str  # Fresh | Owned | Shared | Elem | Self
    lineno: int

    @property
    def where(self) -> str:
        return f"{self.member.qual}"

    @property
    def key(self) -> str:
        return f"{self.member.qual} [{self.kind} {self.target}]"

    sig: str = ""  # what is written, independent of the names of temporaries: 'key' | .attr | call .m | *
    origin: str = ""  # for a Shared root: the expression(s) the written object comes from (locals resolved), ' | '-joined

    @property
    def class_key(self) -> str:
        """<module>::<Class> [<kind> <signature>] - stable when a write moves into a helper of the same class
        or when temporaries are renamed."""
        return f"{self.member.cls.module.path.split('cr/cube/')[-1]}::{self.member.cls.name} [{self.sig}]"


def _root(e: ast.AST) -> ast.AST:
    while isinstance(e, (ast.Subscript, ast.Attribute)):
        if isinstance(e, ast.Attribute) and isinstance(e.value, ast.Name) and e.value.id == "self":
            return e
        e = e.value
    return e


def _is_deep_copy(e: ast.AST) -> bool:
    """copy.deepcopy(x) / json.loads(s): every sub-object of the result is new as well"""
    return isinstance(e, ast.Call) and u(e.func) in ("copy.deepcopy", "deepcopy", "json.loads")


class _FunctionFreshness:
    def __init__(self, fn: ast.FunctionDef, params: List[str], method_returns=None):
        self.fn = fn
        self.params = set(params)
        # name of a plain METHOD of the same class -> freshness class of what it returns (join over its returns)
        self.method_returns = method_returns or (lambda name: None)
        self.env: Dict[str, str] = {}
        self.elem_env: Dict[str, str] = {}
        self.literal_roots: Set[str] = set()
        self._collect()

    def _collect(self):
        # flow-insensitive per name (join over all assignments), iterated to a fixpoint
        for _ in range(4):
            changed = False
            for n in ast.walk(self.fn):
                pairs: List[Tuple[str, str]] = []
                if isinstance(n, ast.AnnAssign) and n.value is not None and isinstance(n.target, ast.Name):
                    pairs.append((n.target.id, self.classify(n.value)))
                    if isinstance(n.value, (ast.Dict, ast.List)) or _is_deep_copy(n.value):
                        self.literal_roots.add(n.target.id)
                if isinstance(n, ast.Assign):
                    c = self.classify(n.value)
                    for t in n.targets:
                        if isinstance(t, ast.Name):
                            pairs.append((t.id, c))
                            if isinstance(n.value, (ast.Dict, ast.List)) or _is_deep_copy(n.value) or self._sub_of_literal_root(n.value):
                                self.literal_roots.add(t.id)
                            ec = self.classify_elem(n.value) if isinstance(n.value, (ast.ListComp, ast.GeneratorExp, ast.List, ast.Tuple)) else None
                            if ec is not None:
                                old = self.elem_env.get(t.id)
                                self.elem_env[t.id] = ec if old is None else self._join(old, ec)
                        elif isinstance(t, (ast.Tuple, ast.List)):
                            for x in t.elts:
                                if isinstance(x, ast.Name):
                                    pairs.append((x.id, "Elem" if c != "Fresh" else "Fresh"))
                elif isinstance(n, (ast.For, ast.comprehension)):
                    it = n.iter
                    c = self.classify_elem(it)
                    tg = n.target
                    for x in ast.walk(tg):
                        if isinstance(x, ast.Name):
                            pairs.append((x.id, c))
                elif isinstance(n, ast.With):
                    for item in n.items:
                        if isinstance(item.optional_vars, ast.Name):
                            pairs.append((item.optional_vars.id, "Fresh"))
                for name, c in pairs:
                    old = self.env.get(name)
                    new = c if old is None else self._join(old, c)
                    if new != old:
                        self.env[name] = new
                        changed = True
            if not changed:
                break

    def _sub_of_literal_root(self, e: ast.AST) -> bool:
        """`order = shim.get("order", {})`, `fixed = order["fixed"]`: a sub-object of an object created in this function"""
        if isinstance(e, ast.BoolOp) and isinstance(e.op, ast.Or):
            # `order = shim.get("order") or {}`: the sub-object, or a new empty container
            subs = [v for v in e.values if not (isinstance(v, (ast.Dict, ast.List)) and not (getattr(v, "keys", None) or getattr(v, "elts", None)))]
            return bool(subs) and all(self._sub_of_literal_root(v) for v in subs)
        r = e
        seen_access = False
        while True:
            if isinstance(r, ast.Call) and isinstance(r.func, ast.Attribute) and r.func.attr in ("get", "setdefault"):
                r = r.func.value
                seen_access = True
                continue
            if isinstance(r, ast.Subscript):
                r = r.value
                seen_access = True
                continue
            break
        return seen_access and isinstance(r, ast.Name) and r.id in self.literal_roots

    @staticmethod
    def _join(a: str, b: str) -> str:
        if a == b:
            return a
        order = ["Fresh", "Elem", "Shared", "Owned"]
        return max(a, b, key=order.index)

    def classify(self, e: ast.AST) -> str:
        if isinstance(e, (ast.Constant, ast.List, ast.Dict, ast.Set, ast.Tuple, ast.ListComp, ast.DictComp, ast.SetComp, ast.GeneratorExp, ast.JoinedStr, ast.Lambda)):
            return "Fresh"
        if isinstance(e, (ast.BinOp, ast.UnaryOp, ast.Compare, ast.BoolOp)):
            if isinstance(e, ast.BoolOp):
                cs = [self.classify(v) for v in e.values]
                out = cs[0]
                for c in cs[1:]:
                    out = self._join(out, c)
                return out
            return "Fresh"
        if isinstance(e, ast.IfExp):
            return self._join(self.classify(e.body), self.classify(e.orelse))
        if isinstance(e, ast.Call):
            f = u(e.func)
            if f.startswith("np.") and f[3:] in NP_CREATORS:
                return "Fresh"
            if f in FRESH_BUILTINS:
                return "Fresh"
            if isinstance(e.func, ast.Name) and e.func.id[:1].isupper():
                return "Fresh"  # constructor
            if isinstance(e.func, ast.Attribute) and e.func.attr[:1].isupper() and isinstance(e.func.value, ast.Name) and e.func.value.id in ("collections", "np"):
                return "Fresh"  # collections.OrderedDict(...)
            if isinstance(e.func, ast.Attribute) and e.func.attr in ("copy", "astype", "reshape", "flatten", "tolist", "take", "lower", "format", "title", "strftime", "join", "split", "intersection", "union", "keys", "values", "items"):
                return "Fresh" if e.func.attr not in ("reshape",) else self.classify(e.func.value)
            if f in ("np.swapaxes", "np.moveaxis", "np.transpose", "np.atleast_1d", "np.atleast_2d", "np.ravel", "np.squeeze", "np.expand_dims", "np.asarray", "np.broadcast_to") and e.args:
                return self.classify(e.args[0])  # a VIEW of its first argument: as fresh / shared as that
            if isinstance(e.func, ast.Attribute) and e.func.attr in ("get", "pop", "setdefault"):
                r = e.func.value
                # d.get("a", {}).get("b", {}) is a sub-object of d as well
                while True:
                    r = _root(r)
                    if isinstance(r, ast.Call) and isinstance(r.func, ast.Attribute) and r.func.attr in ("get", "setdefault"):
                        r = r.func.value
                        continue
                    break
                if isinstance(r, ast.Name) and r.id in self.literal_roots:
                    return "Fresh"  # sub-object of a literal created in this function
                c = self.classify(e.func.value)
                return "Owned" if c == "Owned" else ("Elem" if c in ("Fresh", "Elem") else c)
            if f in ("self._assemble_matrix", "self._assemble_vector", "self._assemble_marginal", "json.loads", "copy.deepcopy", "copy.copy"):
                return "Fresh"
            if isinstance(e.func, ast.Attribute) and isinstance(e.func.value, ast.Name) and e.func.value.id in ("self", "cls"):
                c = self.method_returns(e.func.attr)
                if c is not None:
                    return c
            return "Shared"
        if isinstance(e, ast.Name):
            if e.id in self.env:
                return self.env[e.id]
            if e.id in OWNED_PARAMS:
                return "Owned"
            if e.id in self.params:
                return "Shared"
            return "Shared"
        if isinstance(e, ast.Attribute):
            t = u(e)
            if any(t == r or t.startswith(r + ".") or t.startswith(r + "[") for r in OWNED_ROOTS):
                return "Owned"
            base = self.classify(e.value) if not (isinstance(e.value, ast.Name) and e.value.id == "self") else "Shared"
            return base if base == "Owned" else "Shared"
        if isinstance(e, ast.Subscript):
            r = _root(e)
            if isinstance(r, ast.Name) and r.id in self.literal_roots:
                return "Fresh"
            base = self.classify(e.value)
            if base == "Owned":
                return "Owned"
            if base == "Fresh":
                return "Elem"
            return base
        if isinstance(e, ast.Starred):
            return self.classify(e.value)
        return "Shared"

    def classify_at(self, assign: ast.Assign) -> str:
        """Class of the value bound by ONE assignment (the other names of its right-hand side by the function-wide join,
        except the assigned name itself when it occurs there - `x = dict(x)` is fresh whatever x was)."""
        return self.classify(assign.value)

    def classify_elem(self, it: ast.AST) -> str:
        """Class of the ELEMENTS produced by iterating `it`."""
        if isinstance(it, (ast.ListComp, ast.GeneratorExp)):
            return self.classify(it.elt)
        if isinstance(it, (ast.List, ast.Tuple)):
            cs = [self.classify(x) for x in it.elts] or ["Fresh"]
            out = cs[0]
            for c in cs[1:]:
                out = self._join(out, c)
            return out
        if isinstance(it, ast.Call) and isinstance(it.func, ast.Name) and it.func.id in ("enumerate", "zip", "reversed", "sorted", "list", "tuple", "iter"):
            cs = [self.classify_elem(a) for a in it.args] or ["Fresh"]
            out = cs[0]
            for c in cs[1:]:
                out = self._join(out, c)
            return out
        if isinstance(it, ast.Call) and isinstance(it.func, ast.Name) and it.func.id == "range":
            return "Fresh"
        if isinstance(it, ast.Name) and it.id in self.elem_env:
            return self.elem_env[it.id]
        c = self.classify(it)
        if c == "Owned":
            return "Owned"
        return "Elem"


def _dominating_assignment(fn: ast.AST, name: str, use: ast.AST) -> Optional[ast.AST]:
    """The last assignment `name = <value>` that DOMINATES the statement containing `use`: it stands in a block that encloses
    the use, before it, and no other binding of `name` (in any branch or loop) lies between the two.  None otherwise."""
    parents = {}
    for p_ in ast.walk(fn):
        for c in ast.iter_child_nodes(p_):
            parents[id(c)] = p_
    # chain of statements enclosing the use, innermost first
    chain = []
    x = use
    while x is not None and x is not fn:
        if isinstance(x, ast.stmt):
            chain.append(x)
        x = parents.get(id(x))
    if not chain:
        return None
    use_line = getattr(chain[0], "lineno", 0)
    blocks = []  # statement lists that contain one of the enclosing statements
    for st in chain:
        par = parents.get(id(st))
        for f in ("body", "orelse", "finalbody"):
            lst = getattr(par, f, None)
            if isinstance(lst, list) and any(y is st for y in lst):
                blocks.append((lst, st))
        if isinstance(par, ast.ExceptHandler) or isinstance(par, ast.Try):
            for h in getattr(par, "handlers", []):
                if any(y is st for y in h.body):
                    blocks.append((h.body, st))
    best = None
    for lst, st in blocks:
        for y in lst:
            if y is st:
                break
            if isinstance(y, ast.Assign) and len(y.targets) == 1 and isinstance(y.targets[0], ast.Name) and y.targets[0].id == name:
                if best is None or y.lineno > best.lineno:
                    best = y
    if best is None:
        return None
    # any other binding of the name between the candidate and the use (a branch, a loop target, an augmented assignment)?
    for n in ast.walk(fn):
        ln = getattr(n, "lineno", None)
        if ln is None or not (best.lineno < ln < use_line or (ln == best.lineno and n is not best and isinstance(n, ast.Assign))):
            continue
        binds = []
        if isinstance(n, ast.Assign):
            binds = [t for t0 in n.targets for t in (t0.elts if isinstance(t0, (ast.Tuple, ast.List)) else [t0])]
        elif isinstance(n, (ast.AugAssign, ast.AnnAssign)):
            binds = [n.target]
        elif isinstance(n, (ast.For, ast.comprehension)):
            binds = list(ast.walk(n.target))
        elif isinstance(n, ast.With):
            binds = [i.optional_vars for i in n.items if i.optional_vars is not None]
        if any(isinstance(t, ast.Name) and t.id == name for t in binds) and n is not best:
            return None
    # loops: a use inside a loop whose body re-binds the name AFTER the use is reached again with that binding
    for st in chain:
        if isinstance(st, (ast.For, ast.While)) and best.lineno < st.lineno:
            for n in ast.walk(st):
                if isinstance(n, ast.Assign) and any(isinstance(t, ast.Name) and t.id == name for t in n.targets) and n is not best:
                    return None
    return best


def _literal_loop_values(fn: ast.AST, name: str) -> Optional[List[str]]:
    """`for name in ("top", "bottom")` -> ['top', 'bottom']"""
    for n in ast.walk(fn):
        if isinstance(n, (ast.For, ast.comprehension)) and isinstance(n.target, ast.Name) and n.target.id == name:
            if isinstance(n.iter, (ast.Tuple, ast.List)) and n.iter.elts and all(isinstance(x, ast.Constant) and isinstance(x.value, str) for x in n.iter.elts):
                return [x.value for x in n.iter.elts]
    return None


def _signatures(kind: str, target: ast.AST, node: ast.AST, fn: ast.AST) -> List[str]:
    if kind.startswith("call "):
        if kind == "call .setflags" and isinstance(node, ast.Call) and [k.arg for k in node.keywords] == ["write"] and u(node.keywords[0].value) == "False" and not node.args:
            return ["read-only flag"]
        return [kind]
    if kind == "out-arg":
        return ["out-arg"]
    if isinstance(target, ast.Subscript):
        k = target.slice
        if isinstance(k, ast.Constant) and isinstance(k.value, str):
            return [f"{kind} {k.value!r}"]
        if isinstance(k, ast.Name):
            vals = _literal_loop_values(fn, k.id)
            if vals:
                return [f"{kind} {v!r}" for v in vals]
        if isinstance(target.value, ast.Attribute) and target.value.attr == "__dict__":
            return [f"{kind} __dict__"]
        return [f"{kind} [*]"]
    if isinstance(target, ast.Attribute):
        if u(target).endswith(".flags.writeable") and isinstance(node, ast.Assign) and u(node.value) == "False":
            return ["read-only flag"]
        return [f"{kind} .{target.attr}"]
    return [f"{kind} {u(target)}"]


def _param_freshness(repo: Repo, m: Member, param: str) -> Optional[str]:
    """Class of the argument bound to `param` of the private method `m` over ALL its call sites in the package
    (None when it has none or is not private)."""
    if not m.name.startswith("_") or m.name.startswith("__"):
        return None
    try:
        pos = m.params.index(param)
    except ValueError:
        return None
    out = None
    n_sites = 0
    # index of `self.<name>(...)` / `cls.<name>(...)` call sites, built once per repository
    index = getattr(repo, "_self_call_index", None)
    if index is None:
        index = {}
        for caller in repo.all_members():
            for c in ast.walk(caller.node):
                if isinstance(c, ast.Call) and isinstance(c.func, ast.Attribute) and isinstance(c.func.value, ast.Name) and c.func.value.id in ("self", "cls"):
                    index.setdefault(c.func.attr, []).append((caller, c))
        repo._self_call_index = index
    fr_cache = {}
    for caller, c in index.get(m.name, []):
        if caller.cls is not m.cls and m.cls not in caller.cls.mro and caller.cls not in m.cls.all_subclasses():
            continue
        fr = fr_cache.get(id(caller))
        if True:
            if True:
                arg = None
                if pos < len(c.args):
                    arg = c.args[pos]
                else:
                    for k in c.keywords:
                        if k.arg == param:
                            arg = k.value
                if arg is None:
                    return None
                if fr is None:
                    fr = fr_cache[id(caller)] = _FunctionFreshness(caller.node, caller.params)
                cl = fr.classify(arg)
                out = cl if out is None else _FunctionFreshness._join(out, cl)
                n_sites += 1
    # a method that is also passed around as a value (getattr / callbacks) may have unseen callers
    return out if n_sites else None


def _origin(fn: ast.AST, root: ast.AST) -> str:
    """Where the written object comes from: the root with the function's locals substituted (every may-value)."""
    from .stmts import resolver

    try:
        vals = resolver(fn, multi=True)(ast.Name(id=root.id, ctx=ast.Load()) if isinstance(root, ast.Name) else root)
    except Exception:
        return u(root)
    return " | ".join(sorted({u(v) for v in vals})) or u(root)


def inventory(repo: Repo) -> List[WriteSite]:
    sites: List[WriteSite] = []
    _ret_cache: Dict[Tuple[int, str], Optional[str]] = {}

    def returns_of(ci, name: str, depth: int = 0) -> Optional[str]:
        """Freshness class of the value a plain method `name` of class `ci` returns (None: not a plain method of the class,
        or no return value).  A helper that hands back the response's own list is as Owned as the expression it stands for."""
        key = (id(ci), name)
        if key in _ret_cache:
            return _ret_cache[key]
        _ret_cache[key] = None
        callee = repo.lookup(ci, name)
        if callee is None or callee.kind not in ("method", "staticmethod", "classmethod") or depth > 2 or not isinstance(callee.node, ast.FunctionDef):
            return None
        sub = _FunctionFreshness(callee.node, callee.params, lambda n, ci=ci, depth=depth: returns_of(ci, n, depth + 1))
        out = None
        for r in ast.walk(callee.node):
            if isinstance(r, ast.Return) and r.value is not None:
                c = sub.classify(r.value)
                out = c if out is None else sub._join(out, c)
        _ret_cache[key] = out
        return out

    for m in repo.all_members():
        fr = _FunctionFreshness(m.node, m.params, lambda n, ci=m.cls: returns_of(ci, n))
        # a private helper that receives, at EVERY call site, an object created by its caller (a deep copy, a sub-object of
        # one) works on a fresh object: its parameter is a fresh root, and so are the sub-objects it takes from it
        if m.name.startswith("_") and not m.name.startswith("__") and m.kind in ("method", "staticmethod", "classmethod"):
            seeded = [p_ for p_ in m.params if p_ not in ("self", "cls") and p_ not in fr.env and _param_freshness(repo, m, p_) == "Fresh"]
            if seeded:
                # start over with the fresh parameters known (the join over assignments is monotone: a class computed
                # without that knowledge would stick)
                fr.env = {p_: "Fresh" for p_ in seeded}
                fr.elem_env = {}
                fr.literal_roots = set(seeded)
                fr._collect()
        in_init = m.name == "__init__"

        def add(kind: str, target: ast.AST, node: ast.AST):
            r = _root(target)
            rt = u(r)
            if isinstance(r, ast.Attribute) and isinstance(r.value, ast.Name) and r.value.id == "self" and r is target and kind in ("attr-store",):
                cls = "Self" if in_init else "Shared"
            else:
                cls = fr.classify(r)
                # a name RE-BOUND before the write (`result = resp["result"]` ... `result = dict(result)` ... `result.update(..)`):
                # the assignment that dominates the write decides, not the join over all assignments of the function
                if cls != "Fresh" and isinstance(r, ast.Name):
                    dom = _dominating_assignment(m.node, r.id, node)
                    if dom is not None and fr.classify_at(dom) == "Fresh":
                        cls = "Fresh"
            if cls == "Shared" and isinstance(r, ast.Name) and r.id in m.params and r.id not in fr.env:
                pc = _param_freshness(repo, m, r.id)
                if pc is not None:
                    cls = pc
            origin = _origin(m.node, r) if cls == "Shared" else ""
            for sg in _signatures(kind, target, node, m.node):
                sites.append(WriteSite(m, kind, u(target), rt, cls, getattr(node, "lineno", 0), sg, origin))

        for n in ast.walk(m.node):
            if isinstance(n, (ast.Assign, ast.AnnAssign)):
                targets = n.targets if isinstance(n, ast.Assign) else [n.target]
                for t in targets:
                    for x in ([t] if not isinstance(t, (ast.Tuple, ast.List)) else t.elts):
                        if isinstance(x, ast.Subscript):
                            add("store", x, n)
                        elif isinstance(x, ast.Attribute):
                            add("attr-store", x, n)
            elif isinstance(n, ast.AugAssign):
                if isinstance(n.target, (ast.Subscript, ast.Attribute)):
                    add("augstore", n.target, n)
                elif isinstance(n.target, ast.Name):
                    # `x += ...` mutates in place when x is an array/list that is not fresh
                    c = fr.classify(n.target)
                    if c != "Fresh":
                        sites.append(WriteSite(m, "augstore", n.target.id, n.target.id, c, n.lineno, "augstore " + n.target.id, _origin(m.node, n.target) if c == "Shared" else ""))
            elif isinstance(n, ast.Delete):
                for t in n.targets:
                    if isinstance(t, (ast.Subscript, ast.Attribute)):
                        add("del", t, n)
            elif isinstance(n, ast.Call):
                if isinstance(n.func, ast.Attribute) and n.func.attr in MUTATORS:
                    # dict.get-like `pop` on a fresh local etc. are classified by receiver
                    add("call ." + n.func.attr, n.func.value, n)
                for k in n.keywords:
                    if k.arg == "out" and not (isinstance(k.value, ast.Constant) and k.value.value is None):
                        add("out-arg", k.value, n)
                if u(n.func) in ("setattr", "delattr", "np.put", "np.copyto", "np.place", "np.putmask") and n.args:
                    add("call " + u(n.func), n.args[0], n)
    return sites
