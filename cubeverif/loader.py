"""LOADER - parse /repo/src/cr/**/*.py into a resolved program model (ast only).

Nothing from the repository is imported or executed.  The model offers:

* modules with their import-alias tables (``DIMENSION_TYPE as DT`` ...),
* classes with C3 MRO over in-package bases, members with their kind
  (lazyproperty / property / classmethod / staticmethod / method),
  class-level aliases (``weighted_counts = counts``) and class-level constants,
* lookup of a member through the MRO (``Repo.lookup``).
"""
from __future__ import annotations

import ast
import os
from dataclasses import dataclass, field
from typing import Dict, Iterable, List, Optional, Tuple


class AnalysisError(Exception):
    """The analysis itself cannot run (anchor vanished, parse error ...)."""


@dataclass
class Member:
    name: str
    cls: "ClassInfo"
    node: ast.FunctionDef
    kind: str  # lazyproperty | property | classmethod | staticmethod | method

    @property
    def qual(self) -> str:
        return f"{self.cls.module.short}::{self.cls.name}.{self.name}"

    @property
    def params(self) -> List[str]:
        a = self.node.args
        names = [x.arg for x in a.posonlyargs + a.args]
        if self.kind != "staticmethod" and names:
            names = names[1:]
        return names

    @property
    def lineno(self) -> int:
        return self.node.lineno


@dataclass
class ClassInfo:
    name: str
    module: "ModuleInfo"
    node: ast.ClassDef
    base_names: List[str]
    members: Dict[str, Member] = field(default_factory=dict)
    aliases: Dict[str, str] = field(default_factory=dict)  # weighted_counts = counts
    consts: Dict[str, ast.expr] = field(default_factory=dict)  # filler = np.nan
    bases: List["ClassInfo"] = field(default_factory=list)
    mro: List["ClassInfo"] = field(default_factory=list)
    subclasses: List["ClassInfo"] = field(default_factory=list)

    @property
    def qual(self) -> str:
        return f"{self.module.short}::{self.name}"

    def __hash__(self):
        return hash((self.module.name, self.name))

    def __eq__(self, other):
        return isinstance(other, ClassInfo) and (self.module.name, self.name) == (
            other.module.name,
            other.name,
        )

    def __repr__(self):
        return f"<{self.qual}>"

    def all_subclasses(self) -> List["ClassInfo"]:
        out, todo = [], list(self.subclasses)
        while todo:
            c = todo.pop(0)
            if c not in out:
                out.append(c)
                todo.extend(c.subclasses)
        return out

    def is_subclass_of(self, other: "ClassInfo") -> bool:
        return other in self.mro


@dataclass
class ModuleInfo:
    name: str  # cr.cube.matrix.measure
    path: str
    tree: ast.Module
    source: str
    imports: Dict[str, Tuple[str, Optional[str]]] = field(default_factory=dict)
    classes: Dict[str, ClassInfo] = field(default_factory=dict)
    functions: Dict[str, ast.FunctionDef] = field(default_factory=dict)
    consts: Dict[str, ast.expr] = field(default_factory=dict)

    @property
    def short(self) -> str:
        # cr.cube.matrix.measure -> matrix/measure.py
        rel = self.name.split(".")[2:]
        return "/".join(rel) + ".py" if rel else "__init__.py"


def _decorator_kind(fn: ast.FunctionDef) -> str:
    for d in fn.decorator_list:
        n = d.id if isinstance(d, ast.Name) else (d.attr if isinstance(d, ast.Attribute) else None)
        if n in ("lazyproperty", "property", "classmethod", "staticmethod"):
            return n
    return "method"


class Repo:
    def __init__(self, root: str):
        self.root = root
        self.src = os.path.join(root, "src")
        self.modules: Dict[str, ModuleInfo] = {}
        self._load()
        self._link()
        # one canonical argument form for package-internal calls (keyword arguments moved into their positional slots where
        # the callee is known): every rule then sees `_Subtotals(d, e)` whether the code spells the parameter names or not
        try:
            from .callnorm import normalise_repo

            normalise_repo(self)
        except Exception:  # the normalisation is an aid, never a reason to fail the analysis
            pass

    # ------------------------------------------------------------------ loading
    def _load(self):
        base = os.path.join(self.src, "cr")
        if not os.path.isdir(base):
            raise AnalysisError(f"source tree not found: {base}")
        for dirpath, _dirs, files in sorted(os.walk(base)):
            for f in sorted(files):
                if not f.endswith(".py"):
                    continue
                path = os.path.join(dirpath, f)
                rel = os.path.relpath(path, self.src)[:-3].replace(os.sep, ".")
                if rel.endswith(".__init__"):
                    rel = rel[: -len(".__init__")]
                with open(path, encoding="utf-8") as fh:
                    source = fh.read()
                try:
                    tree = ast.parse(source, filename=path)
                except SyntaxError as e:
                    raise AnalysisError(f"cannot parse {path}: {e}")
                mod = ModuleInfo(rel, path, tree, source)
                self._scan_module(mod)
                self.modules[rel] = mod

    def _scan_module(self, mod: ModuleInfo):
        for node in mod.tree.body:
            if isinstance(node, ast.ImportFrom):
                m = node.module or ""
                if node.level:
                    pkg = mod.name.split(".")
                    # a module's package is its name minus last component
                    pkg = pkg[: len(pkg) - node.level]
                    m = ".".join(pkg + ([m] if m else []))
                for a in node.names:
                    mod.imports[a.asname or a.name] = (m, a.name)
            elif isinstance(node, ast.Import):
                for a in node.names:
                    mod.imports[a.asname or a.name.split(".")[0]] = (a.name, None)
            elif isinstance(node, ast.ClassDef):
                ci = ClassInfo(
                    node.name,
                    mod,
                    node,
                    [self._base_name(b) for b in node.bases],
                )
                for item in node.body:
                    if isinstance(item, ast.FunctionDef):
                        ci.members[item.name] = Member(item.name, ci, item, _decorator_kind(item))
                    elif isinstance(item, ast.Assign) and len(item.targets) == 1 and isinstance(
                        item.targets[0], ast.Name
                    ):
                        t = item.targets[0].id
                        if isinstance(item.value, ast.Name):
                            ci.aliases[t] = item.value.id
                        ci.consts[t] = item.value
                mod.classes[node.name] = ci
            elif isinstance(node, ast.FunctionDef):
                mod.functions[node.name] = node
            elif isinstance(node, ast.Assign) and len(node.targets) == 1 and isinstance(
                node.targets[0], ast.Name
            ):
                mod.consts[node.targets[0].id] = node.value

    @staticmethod
    def _base_name(b: ast.expr) -> str:
        if isinstance(b, ast.Name):
            return b.id
        if isinstance(b, ast.Attribute):
            return b.attr
        return ast.unparse(b)

    # ------------------------------------------------------------------ linking
    def _link(self):
        for mod in self.modules.values():
            for ci in mod.classes.values():
                for bn in ci.base_names:
                    b = self.resolve_class(mod, bn)
                    if b is not None:
                        ci.bases.append(b)
                        b.subclasses.append(ci)
        for mod in self.modules.values():
            for ci in mod.classes.values():
                ci.mro = self._c3(ci)

    def _c3(self, ci: ClassInfo) -> List[ClassInfo]:
        def merge(seqs):
            res = []
            seqs = [list(s) for s in seqs if s]
            while seqs:
                for s in seqs:
                    h = s[0]
                    if not any(h in t[1:] for t in seqs):
                        break
                else:
                    raise AnalysisError(f"inconsistent MRO for {ci.qual}")
                res.append(h)
                seqs = [[x for x in s if x != h] for s in seqs]
                seqs = [s for s in seqs if s]
            return res

        return [ci] + merge([self._c3(b) for b in ci.bases] + [list(ci.bases)])

    # ------------------------------------------------------------------ queries
    def module(self, short_or_name: str) -> ModuleInfo:
        if short_or_name in self.modules:
            return self.modules[short_or_name]
        for m in self.modules.values():
            if m.short == short_or_name:
                return m
        raise AnalysisError(f"module vanished: {short_or_name}")

    def resolve_class(self, mod: ModuleInfo, name: str) -> Optional[ClassInfo]:
        """Resolve a class name as seen from inside module `mod`."""
        if name in mod.classes:
            return mod.classes[name]
        if name in mod.imports:
            m, n = mod.imports[name]
            target = self.modules.get(m)
            if target is not None and n is not None:
                if n in target.classes:
                    return target.classes[n]
                if n in target.imports:  # re-export
                    return self.resolve_class(target, n)
        return None

    def cls(self, short: str, name: str) -> ClassInfo:
        mod = self.module(short)
        if name not in mod.classes:
            raise AnalysisError(f"class vanished: {short}::{name}")
        return mod.classes[name]

    def opt_cls(self, short: str, name: str) -> Optional[ClassInfo]:
        try:
            return self.cls(short, name)
        except AnalysisError:
            return None

    def lookup(self, ci: ClassInfo, name: str) -> Optional[Member]:
        """Member `name` as seen on an instance of `ci` (MRO + class aliases)."""
        seen = set()
        for c in ci.mro:
            n = name
            while n in c.aliases and (c, n) not in seen:
                seen.add((c, n))
                n = c.aliases[n]
            if n in c.members:
                return c.members[n]
        return None

    def lookup_after(self, ci: ClassInfo, after: ClassInfo, name: str) -> Optional[Member]:
        """super(after, self).name for an instance of class `ci`."""
        mro = ci.mro
        if after in mro:
            mro = mro[mro.index(after) + 1 :]
        for c in mro:
            if name in c.members:
                return c.members[name]
        return None

    def member(self, short: str, cls: str, name: str) -> Member:
        ci = self.cls(short, cls)
        m = self.lookup(ci, name)
        if m is None:
            raise AnalysisError(f"member vanished: {short}::{cls}.{name}")
        return m

    def const_lookup(self, ci: ClassInfo, name: str) -> Optional[ast.expr]:
        for c in ci.mro:
            if name in c.consts:
                return c.consts[name]
        return None

    def all_classes(self) -> Iterable[ClassInfo]:
        for mod in self.modules.values():
            yield from mod.classes.values()

    def all_members(self) -> Iterable[Member]:
        for ci in self.all_classes():
            yield from ci.members.values()

    def stats(self) -> Dict[str, int]:
        classes = list(self.all_classes())
        members = [m for c in classes for m in c.members.values()]
        return {
            "modules": len(self.modules),
            "classes": len(classes),
            "functions": len(members) + sum(len(m.functions) for m in self.modules.values()),
            "lazyproperties": sum(1 for m in members if m.kind == "lazyproperty"),
        }

    def resolve_enum_alias(self, mod: ModuleInfo, expr: ast.expr) -> Optional[str]:
        """`DT.MR` -> 'DIMENSION_TYPE.MR_SUBVAR' (follows class-level aliases)."""
        if isinstance(expr, ast.Attribute) and isinstance(expr.value, ast.Name):
            base = expr.value.id
            ci = self.resolve_class(mod, base)
            if ci is not None:
                n = expr.attr
                seen = set()
                while n in ci.aliases and n not in seen:
                    seen.add(n)
                    n = ci.aliases[n]
                return f"{ci.name}.{n}"
        return None


def find_repo_root(arg: Optional[str] = None) -> str:
    root = arg or os.environ.get("CUBEVERIF_REPO") or "/repo"
    return root
