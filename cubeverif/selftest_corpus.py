"""SELFTEST corpus: single edits of the repository source (exact, unique text snippets).

kind 'B' = breaking: the named property's check must report a VIOLATION on the edited tree.
kind 'N' = neutral:  behaviour preserving refactoring; EVERY listed check must stay silent (no VIOLATION).
`suite` records whether the pinned test-suite notices the edit (measured once at development time with
tools/measure_corpus.py; None = not measured).  A variant whose `old` snippet is not found (or not
unique) in the current tree is skipped and reported as such.
"""

V = []


def b(vid, prop, file, old, new, note="", suite=None, after=None):
    V.append({"id": vid, "prop": prop, "kind": "B", "file": file, "old": old, "new": new, "note": note, "suite": suite, "after": after})


def n(vid, props, file, old, new, note="", after=None):
    V.append({"id": vid, "prop": props, "kind": "N", "file": file, "old": old, "new": new, "note": note, "suite": None, "after": after})


MCM, MM, MS, MA = "matrix/cubemeasure.py", "matrix/measure.py", "matrix/subtotals.py", "matrix/assembler.py"
SCM, SM, SI, SA = "stripe/cubemeasure.py", "stripe/measure.py", "stripe/insertion.py", "stripe/assembler.py"

# ----------------------------------------------------------------------------------------------- C01
b("C01-b1", "C01", MCM, "        return self._counts[:, 0, :]", "        return self._counts[:, 1, :]", "other plane instead of selected", after="class _MrXCatCubeCounts")
b("C01-b2", "C01", MCM, "        return self._means[:, :, 0]", "        return self._means[:, 0, :]", "wrong axis in CAT x MR means")
b("C01-b3", "C01", "cube.py", "        return self._measures.sums.raw_cube_array[self._valid_idxs].astype(np.float64)", "        return self._measures.sums.raw_cube_array.astype(np.float64)", "valid-index selection dropped")
b("C01-b4", "C01", "cube.py", '        measure_payload = self._cube_dict["result"].get("measures", {}).get("sum")\n        if measure_payload is None:\n            return None\n\n        return np.array(\n            tuple(\n                np.nan if isinstance(x, dict) else x for x in measure_payload["data"]',
  '        measure_payload = self._cube_dict["result"].get("measures", {}).get("sum")\n        if measure_payload is None:\n            return None\n\n        return np.array(\n            tuple(\n                0 if isinstance(x, dict) else x for x in measure_payload["data"]', "unavailable -> 0 instead of NaN")
b("C01-b5", "C01", "dimension.py", "        return Elements(element for element in self if not element.missing)", "        return Elements(element for element in self if element.missing)", "polarity")
b("C01-b6", "C01", MCM, "        return self._counts[:, 0, :, 0]", "        return self._counts[:, 0, :, 1]", "MR x MR column plane")
b("C01-b7", "C01", SCM, "        return self._counts[:, 0]", "        return self._counts[:, 1]", "strand MR plane")
n("C01-n1", ["C01", "C02", "C03", "C09", "C10"], MCM, "        return self._counts[:, 0, :, 0]", "        return self._counts[:, 0][:, :, 0]", "same meaning, chained subscripts")
n("C01-n2", ["C01"], "cube.py", "        if self._measures.means is None:\n            return None\n        return self._measures.means.raw_cube_array[self._valid_idxs].astype(np.float64)", "        means = self._measures.means\n        if means is None:\n            return None\n        raw = means.raw_cube_array\n        return raw[self._valid_idxs].astype(np.float64)", "temporaries introduced")

# ----------------------------------------------------------------------------------------------- C02
b("C02-b1", "C02", MCM, "        return np.sum(self._counts, axis=2)", "        return np.sum(self._counts, axis=1)", "CAT x MR row bases reduce the wrong axis", after="class _CatXMrCubeCounts")
b("C02-b2", "C02", MCM, "        return np.sum(self._counts, axis=(1, 3))", "        return np.sum(self._counts, axis=(1, 2))", "MR x MR table bases")
b("C02-b3", "C02", MM, "        return self._unweighted_cube_counts.row_bases", "        return self._weighted_cube_counts.row_bases", "provenance of row unweighted bases")
b("C02-b4", "C02", "min_base_size_mask.py", "            return self._slice.row_unweighted_bases < self._size", "            return self._slice.row_unweighted_bases <= self._size", "mask operator")
b("C02-b5", "C02", MM, "        return np.broadcast_to(self._base_values[:, 0][:, None], subtotal_columns.shape)", "        return np.broadcast_to(self._base_values[0, :][:, None], subtotal_columns.shape)", "row bases inserted columns take a row instead of a column")
b("C02-b6", "C02", "cubepart.py", "        if not self._measures.rows_weighted_base.is_defined:\n            return self.row_weighted_bases", "        if not self._measures.rows_weighted_base.is_defined:\n            return self.row_unweighted_bases", "fallback of rows_margin")
b("C02-b7", "C02", MCM, "        return np.repeat(self.table_base, self.counts.shape[0])", "        return np.repeat(self.table_base, self.counts.shape[1])", "rows table base has the columns extent")
n("C02-n1", ["C02", "C03", "C10"], MCM, "        # --- Available because both dimensions are CAT, equal to sum of counts\n        return np.sum(self._counts)", "        # --- Available because both dimensions are CAT, equal to sum of counts\n        return np.sum(np.sum(self._counts, axis=0))", "two-step total")

# ----------------------------------------------------------------------------------------------- C03
b("C03-b1", "C03", MM, "                    count_blocks[0][1] / weighted_base_blocks[0][1],\n                ],\n                [\n                    # --- inserted rows ---\n                    count_blocks[1][0] / weighted_base_blocks[1][0],", "                    count_blocks[0][1] / weighted_base_blocks[0][0],\n                ],\n                [\n                    # --- inserted rows ---\n                    count_blocks[1][0] / weighted_base_blocks[1][0],", "table proportions: base of a neighbouring block")
b("C03-b2", "C03", MM, "    @lazyproperty\n    def _weighted_base_blocks(self):\n        return self._second_order_measures.row_weighted_bases.blocks", "    @lazyproperty\n    def _weighted_base_blocks(self):\n        return self._second_order_measures.column_weighted_bases.blocks", "row proportions paired with column bases")
b("C03-b3", "C03", "cubepart.py", "        return self.row_proportions * 100", "        return self.row_proportions * 10", "percentage factor")
b("C03-b4", "C03", SM, "            return weighted_counts / weighted_bases", "            return weighted_counts / self._unweighted_cube_counts.bases", "strand proportion over the unweighted base")

# ----------------------------------------------------------------------------------------------- C04
b("C04-b1", "C04", MS, "        addend_sum = np.sum(self._base_values[subtotal.addend_idxs, :], axis=0)\n        subtrahend_sum = np.sum(self._base_values[subtotal.subtrahend_idxs, :], axis=0)\n        return addend_sum - subtrahend_sum", "        addend_sum = np.sum(self._base_values[subtotal.addend_idxs, :], axis=0)\n        return addend_sum", "subtrahends ignored in row subtotals")
b("C04-b2", "C04", MM, "        return SumSubtotals.subtotal_rows(\n            self._base_values, self._dimensions, diff_rows_nan=True\n        )\n\n\nclass _Sums", "        return SumSubtotals.subtotal_rows(\n            self._base_values, self._dimensions, diff_rows_nan=False\n        )\n\n\nclass _Sums", "row weighted bases: difference flag off")
b("C04-b3", "C04", MM, "        return NanSubtotals.blocks(\n            self._cube_measures.cube_means.means, self._dimensions\n        )", "        return SumSubtotals.blocks(\n            self._cube_measures.cube_means.means, self._dimensions\n        )", "means are summed for subtotals")
b("C04-b4", "C04", MS, "        return np.sum(self._subtotal_row(row_subtotal)[column_subtotal.addend_idxs])", "        return np.sum(self._subtotal_row(row_subtotal)[column_subtotal.subtrahend_idxs])", "positive intersection uses subtrahends")
b("C04-b5", "C04", MS, "        return len(subtotal.subtrahend_idxs) > 0 and (", "        return any(subtotal.subtrahend_idxs) and (", "index truthiness (the defect D12)")
b("C04-b6", "C04", "dimension.py", "        return tuple(arg for arg in positive if arg in self._valid_elements.element_ids)", "        return tuple(arg for arg in positive)", "stale ids kept")
n("C04-n1", ["C04", "C10"], MS, "        addend_sum = np.sum(self._base_values[:, subtotal.addend_idxs], axis=1)\n        subtrahend_sum = np.sum(self._base_values[:, subtotal.subtrahend_idxs], axis=1)\n        return addend_sum - subtrahend_sum", "        base = self._base_values\n        addend_sum = np.sum(base[:, subtotal.addend_idxs], axis=1)\n        subtrahend_sum = np.sum(base[:, subtotal.subtrahend_idxs], axis=1)\n        return addend_sum - subtrahend_sum", "temp introduced")

# ----------------------------------------------------------------------------------------------- C05
b("C05-b1", "C05", "cubepart.py", "        dim = self._dimensions[0]\n        return np.array(dim.element_labels + dim.subtotal_labels)[\n            self._row_order_signed_indexes\n        ]", "        dim = self._dimensions[0]\n        return np.array(dim.element_labels + dim.subtotal_labels)[\n            self._column_order_signed_indexes\n        ]", "row labels indexed by the column order")
b("C05-b2", "C05", "cubepart.py", "        dim = self._dimensions[1]\n        return np.array(dim.element_ids + dim.insertion_ids)[\n            self._column_order_signed_indexes\n        ]", "        dim = self._dimensions[1]\n        return np.array(dim.insertion_ids + dim.element_ids)[\n            self._column_order_signed_indexes\n        ]", "subtotals before elements")
b("C05-b3", "C05", MCM, "        return np.sum(self._counts, axis=1)", "        return np.sum(self._counts[:, [i for i in range(self._counts.shape[1]) if i not in self._dimensions[1].hidden_idxs]], axis=1)", "a base recomputed after hiding", after="class _CatXCatCubeCounts")
b("C05-b4", "C05", "cubepart.py", "        return self._assemble_matrix(\n            self._measures.pairwise_p_vals(base_column_idx).blocks\n        )", "        return self._assemble_matrix(\n            self._measures.pairwise_p_vals(column_idx).blocks\n        )", "untranslated display column")
b("C05-b5", "C05", "cubepart.py", "        return np.block(blocks)[\n            np.ix_(self._row_order_signed_indexes, self._column_order_signed_indexes)\n        ]", "        return np.block(blocks)[\n            np.ix_(self._column_order_signed_indexes, self._row_order_signed_indexes)\n        ]", "assembly with swapped orders")
b("C05-b6", "C05", "collator.py", "        display_order = tuple(\n            dict.fromkeys(\n                idx", "        display_order = tuple(\n            list(\n                idx", "dedupe removed (the defect D2)")
n("C05-n1", ["C05", "C10"], "cubepart.py", "        dim = self._dimensions[1]\n        return np.array(dim.element_labels + dim.subtotal_labels)[\n            self._column_order_signed_indexes\n        ]", "        return np.array(\n            self._dimensions[1].element_labels + self._dimensions[1].subtotal_labels\n        )[self._column_order_signed_indexes]", "local inlined")

# ----------------------------------------------------------------------------------------------- C06
b("C06-b1", "C06", MCM, "            return np.s_[slice_idx, 0]", "            return np.s_[slice_idx, 1]", "MR table axis: other plane")
b("C06-b2", "C06", MCM, "        return CubeMeansCls(\n            dimensions, cube.means[cls._slice_idx_expr(cube, slice_idx)]\n        )", "        return CubeMeansCls(dimensions, cube.means)", "slice expression dropped")
b("C06-b3", "C06", "cube.py", "        return range(len(self.dimensions[0].valid_elements))", "        return range(len(self.dimensions[0].all_elements))", "one partition per element incl. missing")
b("C06-b4", "C06", "cube.py", "                    transforms=self._transforms_dicts[idx],", "                    transforms=self._transforms_dicts[0],", "every cube gets the first transforms")
b("C06-b5", "C06", "cubepart.py", "            for dimension, transforms in zip(\n                self._cube.dimensions[-2:], self._transform_dicts\n            )", "            for dimension, transforms in zip(\n                self._cube.dimensions[:2], self._transform_dicts\n            )", "first two dimensions instead of last two")

# ----------------------------------------------------------------------------------------------- C07
b("C07-b1", "C07", "collator.py", '        if anchor == "top":\n            return (-1, 0)\n        if anchor == "bottom":\n            return (sys.maxsize, 0)\n\n        # --- otherwise look up anchor-element position by id', '        if anchor == "top":\n            return (0, 0)\n        if anchor == "bottom":\n            return (sys.maxsize, 0)\n\n        # --- otherwise look up anchor-element position by id', "top position 0 ties with the first element")
b("C07-b2", "C07", "collator.py", "            (self._element_positions_by_id[element_id], 1)\n            if element_id in self._element_positions_by_id", "            (self._element_positions_by_id[element_id], -1)\n            if element_id in self._element_positions_by_id", "insertion placed before its anchor")
b("C07-b3", "C07", "dimension.py", '            if anchor not in self._valid_elements.element_ids:\n                # In the case of a non-valid int id, default to "bottom"\n                return "bottom"', '            if anchor not in self._valid_elements.element_ids:\n                # In the case of a non-valid int id, default to "bottom"\n                return anchor', "stale anchor kept")
b("C07-b4", "C07", "dimension.py", "            anchor = _Subtotal(ins, self._valid_elements).anchor\n", '            anchor = ins["anchor"]\n', "raw anchor in the crosswalk (the defect D6)")
b("C07-b5", "C07", "dimension.py", "            return _Subtotals(insertion_dicts, self.valid_elements, False)\n        # --- otherwise insertions defined on dimension/variable apply ---", "            return _Subtotals(insertion_dicts, self.valid_elements)\n        # --- otherwise insertions defined on dimension/variable apply ---", "analysis insertions numbered as view insertions")

# ----------------------------------------------------------------------------------------------- C08
b("C08-b1", "C08", MA, '            M.COLUMN_STDDEV: "column_proportion_variances",  # monotonic transform', '            M.COLUMN_STDDEV: "column_std_err",  # monotonic transform', "sort by another measure")
b("C08-b2", "C08", MA, "        except ValueError:\n            return PayloadOrderCollator.display_order(\n                self._rows_dimension, self._empty_row_idxs, self._format\n            )", "        except KeyError:\n            return PayloadOrderCollator.display_order(\n                self._rows_dimension, self._empty_row_idxs, self._format\n            )", "fallback catches the wrong exception")
b("C08-b3", "C08", "collator.py", "        fixed_idxs = frozenset(self._top_fixed_idxs + self._bottom_fixed_idxs)\n        keys: List[Tuple[int, int]] = []\n        nans: List[Tuple[int, int]] = []\n        for i, val in enumerate(self._element_values):\n            if i not in fixed_idxs:\n                group = nans if self._is_nan(val) else keys\n                group.append((val, i))\n\n        return tuple(idx for _, idx in (sorted(keys, reverse=self._descending) + nans))", "        fixed_idxs = frozenset(self._top_fixed_idxs + self._bottom_fixed_idxs)\n        keys: List[Tuple[int, int]] = []\n        nans: List[Tuple[int, int]] = []\n        for i, val in enumerate(self._element_values):\n            if i not in fixed_idxs:\n                group = nans if self._is_nan(val) else keys\n                group.append((val, i))\n\n        return tuple(\n            idx for _, idx in (sorted(keys, reverse=not self._descending) + nans)\n        )", "direction inverted")
b("C08-b4", "C08", "collator.py", "                    + self._top_fixed_idxs\n                    + self._body_idxs\n                    + self._bottom_fixed_idxs", "                    + self._top_fixed_idxs\n                    + self._bottom_fixed_idxs\n                    + self._body_idxs", "group order")
b("C08-b5", "C08", MA, "        measure_subtotal_rows = self._measure.blocks[1][0]\n        return measure_subtotal_rows[:, self._column_idx]", "        measure_subtotal_rows = self._measure.blocks[0][0]\n        return measure_subtotal_rows[:, self._column_idx]", "row subtotals sorted by base block cells")
b("C08-b6", "C08", SA, '            "percent_stddev": "table_proportion_stddevs",', '            "percent_stddev": "table_proportion_stderrs",', "stripe keyword table")

# ----------------------------------------------------------------------------------------------- C09
b("C09-b1", "C09", MM, "        return self._cube_measures.unweighted_cube_counts.rows_pruning_mask", "        return self._cube_measures.weighted_cube_counts.rows_pruning_mask", "pruning from weighted counts")
b("C09-b2", "C09", MCM, "        return np.sum(self._counts, axis=(1, 2))", "        return np.sum(self.counts, axis=1)", "MR x CAT row emptiness from selected only", after="    def _rows_pruning_base(self):\n        \"\"\"1D bool np.ndarray of the sum of the column-bases for cells in a column.\n\n        Used to compute the rows-pruning-mask; not meaningful on its own.\n        \"\"\"\n        # --- Because row is MR we need to override. We want to sum over the\n        # --- selection dimension (dim=1) & the columns (dim=1)\n        return np.sum(self._counts, axis=(1, 2))\n\n\nclass _MrXCatCubeCounts")
b("C09-b3", "C09", "collator.py", "        empty_idxs = self._empty_idxs if self._dimension.prune else ()", "        empty_idxs = self._empty_idxs", "prune flag ignored")
b("C09-b4", "C09", MA, "            len(self._empty_column_idxs) == len(self._columns_dimension.element_ids)\n            if self._columns_dimension.prune", "            len(self._empty_column_idxs) == len(self._columns_dimension.element_ids)\n            if self._rows_dimension.prune", "row subtotals pruned by the rows prune flag")
b("C09-b5", "C09", "dimension.py", '        return self._dimension_transforms_dict.get("prune") is True', '        return bool(self._dimension_transforms_dict.get("prune"))', "truthy prune")

# ----------------------------------------------------------------------------------------------- C10
b("C10-b1", "C10", MM, "        return np.broadcast_to(self._base_values[0, :], subtotal_rows.shape)", "        return np.broadcast_to(self._base_values[:, 0], subtotal_rows.shape)", "column weighted bases inserted rows")
b("C10-b2", "C10", MCM, "        return np.sum(self._counts, axis=1)", "        return np.sum(self._counts, axis=2)", "MR x CAT column bases reduce the wrong axis", after="class _MrXCatCubeCounts")
b("C10-b3", "C10", MM, "        return self._second_order_measures.row_comparable_counts.is_defined", "        return self._second_order_measures.column_comparable_counts.is_defined", "COLUMNS branch uses the ROWS definedness")

# ----------------------------------------------------------------------------------------------- C11
b("C11-b1", "C11", MM, "            n_term = ((-1 - p) ** 2) * (Nn / Nt)", "            n_term = ((1 - p) ** 2) * (Nn / Nt)", "negative term of the variance")
b("C11-b2", "C11", MM, "                    np.sqrt(variance_blocks[1][0] / weighted_base_blocks[1][0]),\n                    # --- intersections ---\n                    np.sqrt(variance_blocks[1][1] / weighted_base_blocks[1][1]),\n                ],\n            ]\n\n\nclass _ColumnUnweightedBases", "                    np.sqrt(variance_blocks[1][0] / weighted_base_blocks[0][0]),\n                    # --- intersections ---\n                    np.sqrt(variance_blocks[1][1] / weighted_base_blocks[1][1]),\n                ],\n            ]\n\n\nclass _ColumnUnweightedBases", "column std-err block position")
b("C11-b3", "C11", "cubepart.py", "Z_975 = 1.959964", "Z_975 = 1.96", "z constant")
b("C11-b4", "C11", MM, "            self.row_proportions.blocks,\n            self.row_weighted_bases.blocks,", "            self.row_proportions.blocks,\n            self.table_weighted_bases.blocks,", "row variance paired with table bases")
n("C11-n1", ["C11"], MM, "            i_term = ((0 - p) ** 2) * (Ni / Nt)", "            i_term = (p**2) * (Ni / Nt)", "equivalent algebra")

# ----------------------------------------------------------------------------------------------- C12
b("C12-b1", "C12", MM, "                / table_bases**3", "                / table_bases**2", "residual variance")
b("C12-b2", "C12", MM, "            self._second_order_measures.weighted_counts.blocks[1][0],\n            self._second_order_measures.table_weighted_bases.blocks[1][0],\n            self._second_order_measures.row_weighted_bases.blocks[1][0],\n            self._second_order_measures.column_weighted_bases.blocks[1][0],", "            self._second_order_measures.weighted_counts.blocks[1][0],\n            self._second_order_measures.table_weighted_bases.blocks[1][0],\n            self._second_order_measures.column_weighted_bases.blocks[1][0],\n            self._second_order_measures.row_weighted_bases.blocks[1][0],", "row / column base arguments swapped")
b("C12-b3", "C12", MM, "        return not np.all(counts.shape) or np.linalg.matrix_rank(counts) < 2", "        return not np.all(counts.shape) or np.linalg.matrix_rank(counts) < 1", "defective guard constant")
n("C12-n1", ["C12"], MM, "            variance = (\n                row_bases\n                * column_bases\n                * (table_bases - row_bases)\n                * (table_bases - column_bases)\n                / table_bases**3\n            )", "            variance = (\n                expected_counts\n                * (1 - row_bases / table_bases)\n                * (1 - column_bases / table_bases)\n            )", "equivalent formula")

# ----------------------------------------------------------------------------------------------- C13
b("C13-b1", "C13", MM, "        df = (columns_base + selected_columns_base - 2) if t_stats.size > 0 else 0", "        df = (columns_base + selected_columns_base - 1) if t_stats.size > 0 else 0", "degrees of freedom")
b("C13-b2", "C13", MM, "                        weighted_blocks[0][0] ** 2 / squared_blocks[0][0],", "                        self._second_order_measures.column_unweighted_bases.blocks[0][0] ** 2\n                        / squared_blocks[0][0],", "effective base from the unweighted base")
b("C13-b3", "C13", MM, "        col_idx = self._selected_column_idx\n        if col_idx < 0:\n            props = self._proportions[block_index][1]", "        col_idx = self._selected_column_idx\n        if col_idx > 0:\n            props = self._proportions[block_index][1]", "reference column table")
b("C13-b4", "C13", "cubepart.py", "                significance = np.logical_and(t_stats < 0, significance)\n            col_significance", "                significance = np.logical_and(t_stats > 0, significance)\n            col_significance", "only-larger direction")
b("C13-b5", "C13", "measures/pairwise_significance.py", "            weighted_base = self._slice.columns_margin\n", "            weighted_base = self._slice.columns_base\n", "legacy effective base (the defect D4)")

# ----------------------------------------------------------------------------------------------- C14
b("C14-b1", "C14", SM, "        return np.sqrt(self._scale_variance / self._total_weighted_count)", "        return np.sqrt(self._scale_variance / np.sum(self._weighted_cube_counts.counts))", "std-err over all rows")
b("C14-b2", "C14", MM, "            np.array(self._dimensions[1].numeric_values, dtype=np.float64)\n            if self.orientation == MO.ROWS\n            else np.array(self._dimensions[0].numeric_values, dtype=np.float64)", "            np.array(self._dimensions[0].numeric_values, dtype=np.float64)\n            if self.orientation == MO.ROWS\n            else np.array(self._dimensions[1].numeric_values, dtype=np.float64)", "numeric values of the wrong dimension")
b("C14-b3", "C14", MM, "            self._scale_mean_stddev.blocks[1] / np.sqrt(self._margin.blocks[1]),", "            self._scale_mean_stddev.blocks[1] / np.sqrt(self._margin.blocks[0]),", "std-err block")

# ----------------------------------------------------------------------------------------------- C15
b("C15-b1", "C15", MM, "                    (sums_blocks[0][1].T / np.nansum(sums_blocks[0][0], axis=1)).T,", "                    (sums_blocks[0][1].T / np.nansum(sums_blocks[0][1], axis=1)).T,", "row share of inserted columns")
b("C15-b2", "C15", MM, "                    sums_blocks[1][0] / np.nansum(sums_blocks[0][0]),", "                    sums_blocks[1][0] / np.nansum(sums_blocks[1][0]),", "total share of inserted rows (the defect D3)")

# ----------------------------------------------------------------------------------------------- C16
b("C16-b1", "C16", MCM, "            self._counts_with_missings[self._valid_row_idxs][:, 0:2], axis=(1, 2)", "            self._counts_with_missings[self._valid_row_idxs][:, 0:3], axis=(1, 2)", "MR x CAT baseline denominator includes missing")
b("C16-b2", "C16", MCM, "        counts_with_missings = cube.counts_with_missings", "        counts_with_missings = cube.counts", "baseline from valid answers only")
b("C16-b3", "C16", MM, "            return 100 * (proportions / baseline)", "            return 1 * (proportions / baseline)", "index scale")

# ----------------------------------------------------------------------------------------------- C17
b("C17-b1", "C17", MM, "            self._second_order_measures.row_std_err.blocks\n            if self._dimensions[-2].dimension_type == DT.CAT_DATE", "            self._second_order_measures.column_std_err.blocks\n            if self._dimensions[-2].dimension_type == DT.CAT_DATE", "std-err of the other direction")
b("C17-b2", "C17", "cubepart.py", "        total_filtered_population = self._population * self._cube.population_fraction\n        return Z_975 * total_filtered_population * std_err", "        total_filtered_population = self._population\n        return Z_975 * total_filtered_population * std_err", "fraction dropped from the MoE")
b("C17-b3", "C17", "cube.py", "        except ZeroDivisionError:\n            return np.nan", "        except ZeroDivisionError:\n            return 1.0", "zero denominator")
b("C17-b4", "C17", "cube.py", '        filter_stats = self._cube_dict["result"].get("filter_stats") or {}', '        filter_stats = self._cube_dict["result"].get("filter_stats", {})', "null filter_stats raises (the defect D13)")

# ----------------------------------------------------------------------------------------------- C18
b("C18-b1", "C18", MM, "        diff_nans = self._weighted_cube_counts.diff_nans\n        return SumSubtotals.blocks(", "        diff_nans = self._weighted_cube_counts.diff_nans\n        self._weighted_cube_counts.counts[0] *= 1\n        return SumSubtotals.blocks(", "in-place write to a cached array")
b("C18-b2", "C18", "dimension.py", '        references = self._dimension_dict["references"]\n\n        def raw_name():', '        references = self._dimension_dict["references"]\n        references["name_read"] = True\n\n        def raw_name():', "write to the caller's response")
b("C18-b3", "C18", "cube.py", "        raw_cube_array.flags.writeable = False\n", "", "raw array left writeable")
b("C18-b4", "C18", "util.py", '        raise AttributeError("can\'t set attribute")', "        obj.__dict__[self.__name__] = value", "lazyproperty can be assigned")
b("C18-b5", "C18", "cube.py", "        summary_cube_resp = Cube(summary_cube_resp)._cube_response\n", "", "raw summary response subscripted (the defect D8)")
n("C18-n1", ["C18"], MM, "        p = self._proportions\n        Nt = self._count_total", "        scratch = []\n        scratch.append(1)\n        p = self._proportions\n        Nt = self._count_total", "append on a fresh local list")

# ----------------------------------------------------------------------------------------------- C19
b("C19-b1", "C19", "dimension.py", "        if _id in self._subvar_aliases:\n            return _id\n        if _id in self._raw_element_ids:\n            return self._subvar_aliases[self._raw_element_ids.index(_id)]", "        if _id in self._raw_element_ids:\n            return self._subvar_aliases[self._raw_element_ids.index(_id)]\n        if _id in self._subvar_aliases:\n            return _id", "alias no longer first")
b("C19-b2", "C19", MA, "        sort_column_id = self._order_spec.element_id\n        # --- Need to translate the element id to the shimmed element id\n        sort_column_id = self._columns_dimension.translate_element_id(sort_column_id)", "        sort_column_id = self._order_spec.element_id", "late translation dropped")
b("C19-b3", "C19", "dimension.py", "            for i, nkey in enumerate(new_keys)\n            if nkey is not None", "            for i, nkey in enumerate(new_keys)", "unknown keys kept as None")
b("C19-b4", "C19", "dimension.py", "        except (TypeError, ValueError):\n            return None\n\n        if _id >= 0", "        except ValueError:\n            return None\n\n        if _id >= 0", "None raises TypeError (the defect D1)")

# ----------------------------------------------------------------------------------------------- C20
b("C20-b1", "C20", "smoothing.py", "        if window > base_values.shape[-1] or window < 2:", "        if window > base_values.shape[-1] or window < 1:", "window 1 accepted")
b("C20-b2", "C20", MM, "        return Smoother.factory(self._dimensions[-1])", "        return Smoother.factory(self._dimensions[0])", "smoother from the rows dimension")
b("C20-b3", "C20", MM, "    @lazyproperty\n    def _subtotal_rows(self):\n        \"\"\"2D np.float64 ndarray of subtotal rows column proportions smoothed values.\"\"\"\n        smoother = self._smoother\n        return smoother.smooth(super(_ColumnProportionsSmoothed, self)._subtotal_rows)", "    @lazyproperty\n    def _subtotal_rows(self):\n        \"\"\"2D np.float64 ndarray of subtotal rows column proportions smoothed values.\"\"\"\n        smoother = self._smoother\n        return smoother.smooth(super(_ColumnProportionsSmoothed, self)._subtotal_rows)\n\n    @lazyproperty\n    def _subtotal_columns(self):\n        smoother = self._smoother\n        return smoother.smooth(\n            super(_ColumnProportionsSmoothed, self)._subtotal_columns\n        )", "inserted columns smoothed too")
