"""Statement-level helpers that make rules independent of temporaries and of statement layout.

* may_values(fn): flow-insensitive def-use - every expression a local name may hold, with other locals
  substituted (so `x = a.b; y = x[0]` gives y -> {a.b[0]}).  Used to compare WHAT is stored / returned /
  tested, whatever the temporaries are called and however the statements are arranged.
* atoms(e): the atoms of a test (operands of and / or, negations pushed inwards by exprdiff.canon).
"""
from __future__ import annotations

import ast
import copy
import itertools
from typing import Dict, Iterable, List, Optional, Set

from .symex import u

_MAX = 24


class _Sub(ast.NodeTransformer):
    def __init__(self, env: Dict[str, ast.expr]):
        self.env = env
        self.shadow: List[Set[str]] = []

    def visit_Name(self, node: ast.Name):
        if isinstance(node.ctx, ast.Load) and node.id in self.env and not any(node.id in s for s in self.shadow):
            return copy.deepcopy(self.env[node.id])
        return node

    def _comp(self, node):
        # names bound by the comprehension's own `for` clauses shadow function-level locals of the same name
        bound = {n.id for g in node.generators for n in ast.walk(g.target) if isinstance(n, ast.Name)}
        # the first iterable is evaluated in the enclosing scope
        node.generators[0].iter = self.visit(node.generators[0].iter)
        self.shadow.append(bound)
        try:
            for i, g in enumerate(node.generators):
                if i:
                    g.iter = self.visit(g.iter)
                g.ifs = [self.visit(c) for c in g.ifs]
            if isinstance(node, ast.DictComp):
                node.key = self.visit(node.key)
                node.value = self.visit(node.value)
            else:
                node.elt = self.visit(node.elt)
        finally:
            self.shadow.pop()
        return node

    visit_ListComp = visit_SetComp = visit_GeneratorExp = visit_DictComp = _comp

    def visit_Lambda(self, node: ast.Lambda):
        self.shadow.append({a.arg for a in node.args.args})
        try:
            node.body = self.visit(node.body)
        finally:
            self.shadow.pop()
        return node


def _assignments(fn: ast.AST) -> Dict[str, List[ast.expr]]:
    out: Dict[str, List[ast.expr]] = {}
    for n in ast.walk(fn):
        if isinstance(n, ast.Assign):
            for t in n.targets:
                if isinstance(t, ast.Name):
                    out.setdefault(t.id, []).append(n.value)
                elif isinstance(t, (ast.Tuple, ast.List)) and isinstance(n.value, (ast.Tuple, ast.List)) and len(t.elts) == len(n.value.elts):
                    for x, v in zip(t.elts, n.value.elts):
                        if isinstance(x, ast.Name):
                            out.setdefault(x.id, []).append(v)
                elif isinstance(t, (ast.Tuple, ast.List)) and not any(isinstance(x, ast.Starred) for x in t.elts) and not isinstance(n.value, (ast.Tuple, ast.List)):
                    # `a, b = X` (X not a display): a is X[0], b is X[1]
                    for k, x in enumerate(t.elts):
                        if isinstance(x, ast.Name):
                            out.setdefault(x.id, []).append(ast.Subscript(value=n.value, slice=ast.Constant(value=k), ctx=ast.Load()))
        elif isinstance(n, ast.AnnAssign) and n.value is not None and isinstance(n.target, ast.Name):
            out.setdefault(n.target.id, []).append(n.value)
        elif isinstance(n, ast.NamedExpr) and isinstance(n.target, ast.Name):
            out.setdefault(n.target.id, []).append(n.value)
        elif isinstance(n, ast.AugAssign) and isinstance(n.target, ast.Name):
            out.setdefault(n.target.id, []).append(ast.BinOp(left=ast.Name(id=n.target.id, ctx=ast.Load()), op=n.op, right=n.value))
    return out


def may_values(fn: ast.AST, params: Iterable[str] = (), multi: bool = True) -> Dict[str, List[ast.expr]]:
    """name -> list of fully substituted expressions the name may hold (loop variables and parameters stay names).
    multi=False: only names assigned exactly once are substituted (a re-bound name such as `cube = f(cube)` stays)."""
    asg = _assignments(fn)
    if not multi:
        asg = {k: v for k, v in asg.items() if len(v) == 1}
    memo: Dict[str, List[ast.expr]] = {}
    busy: Set[str] = set()

    def vals(name: str) -> List[ast.expr]:
        if name in memo:
            return memo[name]
        if name in busy or name not in asg:
            return [ast.Name(id=name, ctx=ast.Load())]
        busy.add(name)
        out: List[ast.expr] = []
        for rhs in asg[name]:
            out += expand_expr(rhs)
        busy.discard(name)
        # de-duplicate by text
        seen, uniq = set(), []
        for x in out:
            if u(x) not in seen:
                seen.add(u(x))
                uniq.append(x)
        memo[name] = uniq[:_MAX]
        return memo[name]

    def expand_expr(e: ast.expr) -> List[ast.expr]:
        names = sorted({n.id for n in ast.walk(e) if isinstance(n, ast.Name) and isinstance(n.ctx, ast.Load) and n.id in asg and n.id not in busy})
        if not names:
            return [copy.deepcopy(e)]
        choices = [vals(nm) for nm in names]
        out = []
        for combo in itertools.islice(itertools.product(*choices), _MAX):
            out.append(_Sub(dict(zip(names, combo))).visit(copy.deepcopy(e)))
        return out

    may_values.expand = expand_expr  # type: ignore[attr-defined]
    return {name: vals(name) for name in asg}


def resolver(fn: ast.AST, multi: bool = False):
    """-> function expr -> list of substituted variants of expr (see may_values)."""
    may_values(fn, multi=multi)
    return may_values.expand  # type: ignore[attr-defined]


def atoms(e: ast.expr) -> List[ast.expr]:
    """Operands of nested and / or (a test's atoms)."""
    if isinstance(e, ast.BoolOp):
        out: List[ast.expr] = []
        for v in e.values:
            out += atoms(v)
        return out
    return [e]


class AtomList(list):
    """Atoms together with the bare names of the functions they were collected from (see exprdiff.scope)."""

    scope: Optional[Set[str]] = None


def _scoped(cands):
    from . import exprdiff

    return exprdiff.scope(cands.scope if isinstance(cands, AtomList) and exprdiff.SCOPE is None else exprdiff.SCOPE)


def match_atoms(cands: Iterable[ast.expr], wants: List[str]):
    """Match a SET of wanted atoms against candidate atoms -> {want: (verdict, why)}.  A candidate that is itself one
    of the wanted atoms is never evidence of a substitution of another."""
    from .exprdiff import canon, compare, parse

    with _scoped(cands):
        cands = list(cands)
        wanted_texts = {u(canon(parse(w))) for w in wants}
        spare = [c for c in cands if u(canon(c)) not in wanted_texts]
        out = {}
        for w in wants:
            ok, why = match_any(cands, [w])
            if ok is False:
                ok, why = match_any(spare, [w])
            out[w] = (ok, why)
        return out


def match_any(candidates: Iterable[ast.expr], accepted: Iterable[str]):
    """Tri-state: True when some candidate equals an accepted spelling (after canonicalisation); False when a
    candidate is a same-shape token substitution of one and none matches; None otherwise."""
    from .exprdiff import compare

    worst = None
    why = ""
    with _scoped(candidates):
        for c in candidates:
            ok, w = compare(c, list(accepted))
            if ok is True:
                return True, ""
            if ok is False:
                worst, why = False, w
    return worst, why


def collect_test_atoms(repo, ci, member_name: str, depth: int = 2) -> List[ast.expr]:
    """Atoms of every test (if / while / conditional expression / comprehension filter) of `member` and - followed
    through `self.<helper>(...)` / `cls.<helper>(...)` calls and helper properties - of its private helpers; boolean
    RETURN values of those helpers count as tests too.  Locals are substituted (see may_values)."""
    from .exprdiff import ScopeSet

    out: List[ast.expr] = AtomList()
    fns: List[ast.AST] = []
    seen: Set[str] = set()

    def visit(name: str, d: int, is_helper: bool):
        if name in seen or d < 0:
            return
        seen.add(name)
        m = repo.lookup(ci, name)
        if m is None:
            return
        res = resolver(m.node)
        tests: List[ast.expr] = []
        fns.append(m.node)
        for n in ast.walk(m.node):
            if isinstance(n, (ast.If, ast.While, ast.IfExp)):
                tests.append(n.test)
            elif isinstance(n, ast.comprehension):
                tests += n.ifs
            elif isinstance(n, ast.Return) and n.value is not None and is_helper and isinstance(n.value, (ast.BoolOp, ast.Compare, ast.UnaryOp, ast.Call)):
                tests.append(n.value)
            elif isinstance(n, ast.Assert):
                tests.append(n.test)
        for t in tests:
            for a in atoms(t):
                out.extend(res(a))
        for n in ast.walk(m.node):
            if isinstance(n, ast.Attribute) and isinstance(n.value, ast.Name) and n.value.id in ("self", "cls") and n.attr.startswith("_") and not n.attr.startswith("__"):
                hm = repo.lookup(ci, n.attr)
                if hm is not None and hm.kind in ("method", "staticmethod", "classmethod"):
                    visit(n.attr, d - 1, True)

    visit(member_name, depth, False)
    out.scope = ScopeSet.of(fns)
    return out


def match_atom(cands: Iterable[ast.expr], want: str):
    """Tri-state match of one wanted test atom, in either polarity (a predicate helper states the negation)."""
    with _scoped(cands):
        cands = list(cands)
        ok, why = match_any(cands, [want, f"not ({want})"])
        if ok is not None:
            return ok, why
        # strip a leading `not` of candidates and retry against the positive form
        stripped = [c.operand for c in cands if isinstance(c, ast.UnaryOp) and isinstance(c.op, ast.Not)]
        return match_any(stripped, [want]) if stripped else (None, "")


def _exits(body: List[ast.stmt]) -> bool:
    return bool(body) and isinstance(body[-1], (ast.Continue, ast.Return, ast.Raise, ast.Break))


def enclosing_guards(fn: ast.AST, target: ast.AST) -> List[tuple]:
    """[(test, polarity)] of the conditions under which `target` is evaluated, outermost first: enclosing if
    statements / conditional expressions / `and` operands, and EARLIER siblings of the form
    `if T: continue|return|raise|break` (no else), which contribute (T, False) to everything after them."""
    path: List[tuple] = []

    def block(stmts: List[ast.stmt], acc: List[tuple]) -> bool:
        acc = list(acc)
        for st in stmts:
            if rec(st, acc):
                return True
            if isinstance(st, ast.If) and not st.orelse and _exits(st.body):
                acc.append((st.test, False))
            elif isinstance(st, ast.If) and st.orelse and _exits(st.orelse) and not _exits(st.body):
                acc.append((st.test, True))
        return False

    def rec(node: ast.AST, acc: List[tuple]) -> bool:
        if node is target:
            path.extend(acc)
            return True
        if isinstance(node, ast.If):
            if rec(node.test, acc):
                return True
            if block(node.body, acc + [(node.test, True)]):
                return True
            return block(node.orelse, acc + [(node.test, False)])
        if isinstance(node, ast.IfExp):
            if rec(node.body, acc + [(node.test, True)]):
                return True
            if rec(node.orelse, acc + [(node.test, False)]):
                return True
            return rec(node.test, acc)
        if isinstance(node, ast.BoolOp) and isinstance(node.op, ast.And):
            for i, v in enumerate(node.values):
                if rec(v, acc + [(p, True) for p in node.values[:i]]):
                    return True
            return False
        if isinstance(node, ast.BoolOp) and isinstance(node.op, ast.Or):
            for i, v in enumerate(node.values):
                if rec(v, acc + [(p, False) for p in node.values[:i]]):
                    return True
            return False
        if isinstance(node, (ast.ListComp, ast.GeneratorExp, ast.SetComp, ast.DictComp)):
            conds = [(c, True) for g in node.generators for c in g.ifs]
            elts = [node.key, node.value] if isinstance(node, ast.DictComp) else [node.elt]
            for x in elts:
                if rec(x, acc + conds):
                    return True
            for g in node.generators:
                if rec(g.iter, acc):
                    return True
                for c in g.ifs:
                    if rec(c, acc):
                        return True
            return False
        for field, value in ast.iter_fields(node):
            if isinstance(value, list) and value and isinstance(value[0], ast.stmt):
                if block(value, acc):
                    return True
            elif isinstance(value, list):
                for ch in value:
                    if isinstance(ch, ast.AST) and rec(ch, acc):
                        return True
            elif isinstance(value, ast.AST):
                if rec(value, acc):
                    return True
        return False

    rec(fn, [])
    return path


def positive_guard_atoms(fn: ast.AST, target: ast.AST, resolve: bool = True) -> List[ast.expr]:
    """Atoms known to HOLD where `target` is evaluated (and-atoms of true-polarity tests; for false polarity the
    negated or-atoms), locals substituted."""
    res = resolver(fn) if resolve else (lambda e: [copy.deepcopy(e)])
    out: List[ast.expr] = []
    for test, pol in enclosing_guards(fn, target):
        if pol:
            parts = test.values if isinstance(test, ast.BoolOp) and isinstance(test.op, ast.And) else [test]
            for p in parts:
                out += res(p)
        else:
            parts = test.values if isinstance(test, ast.BoolOp) and isinstance(test.op, ast.Or) else [test]
            for p in parts:
                for x in res(p):
                    # not (not a) -> a
                    out.append(x.operand if isinstance(x, ast.UnaryOp) and isinstance(x.op, ast.Not) else ast.UnaryOp(op=ast.Not(), operand=x))
    return out


def reachable_functions(repo, ci, member_name: str, depth: int = 2) -> List[ast.AST]:
    """The member and - transitively - the private helper METHODS of the class it calls through self / cls."""
    out: List[ast.AST] = []
    seen: Set[str] = set()

    def visit(name: str, d: int):
        if name in seen or d < 0:
            return
        seen.add(name)
        m = repo.lookup(ci, name)
        if m is None:
            return
        out.append(m.node)
        for n in ast.walk(m.node):
            own_names = {"self", "cls"} | {c.name for c in (ci.mro or [ci])}
            if isinstance(n, ast.Call) and isinstance(n.func, ast.Attribute) and isinstance(n.func.value, ast.Name) and n.func.value.id in own_names:
                hm = repo.lookup(ci, n.func.attr)
                if hm is not None and hm.kind in ("method", "staticmethod", "classmethod") and n.func.attr.startswith("_"):
                    visit(n.func.attr, d - 1)

    visit(member_name, depth)
    return out


def scope_names(repo, ci, member_name: str, depth: int = 3):
    """Every bare name (locals, parameters, globals read) of the member and of the private helpers it reaches."""
    from .exprdiff import ScopeSet

    return ScopeSet.of(reachable_functions(repo, ci, member_name, depth))


def check_side_paths(ctx, rule: str, construct: str, e: ast.expr, expected: List[tuple], detail: str = ""):
    """Each (guard, leaf) pair of `expected` must be a path of the summary `e`: some path returns `leaf` and is taken
    when `guard` holds (guard = one disjunct of a positive test, or the negation of a negative one).  Order and
    nesting of the guards, merged conditions (`a or b`) and flipped polarity do not matter.  Tri-state per pair."""
    from .exprdiff import canon, compare, parse
    from .symex import strip_ifexp_paths

    paths = strip_ifexp_paths(e)
    for gtext, ltext in expected:
        want_leaf = u(canon(parse(ltext)))
        verdict, why = None, "no path returns " + ltext
        for gs, leaf in paths:
            if u(canon(leaf)) != want_leaf:
                continue
            held: List[ast.expr] = []
            for g, pol in gs:
                if pol:
                    held += g.values if isinstance(g, ast.BoolOp) and isinstance(g.op, ast.Or) else [g]
                else:
                    parts = g.values if isinstance(g, ast.BoolOp) and isinstance(g.op, ast.And) else [g]
                    held += [ast.UnaryOp(op=ast.Not(), operand=p) for p in parts]
            ok, w = match_any(held, [gtext])
            if ok is True:
                verdict, why = True, ""
                break
            if ok is False and verdict is None:
                verdict, why = False, w
            elif verdict is None:
                why = f"{ltext} is returned, but not under {gtext}"
        ctx.ob(rule, construct + f" [{gtext[:50]} -> {ltext[:30]}]", [(" & ".join(("" if p else "not ") + u(g)[:40] for g, p in gs), u(l)[:40]) for gs, l in paths][:5], f"{gtext} -> {ltext}", verdict, why or detail)
