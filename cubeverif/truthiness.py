"""Truth-tests of position-valued expressions.

A display position / element index is an int whose domain includes 0; testing it for truth
(`if pos:`, `x if pos else y`, `pos or default`, `not pos`) treats the FIRST element as absent.
The analysis is a small def-use pass per function:

  position sources   .index(x) calls; the counter of `for i, _ in enumerate(..)`; a read `M[k]` /
                     `M.get(k)` of a POSITION MAP (a member or local whose value is a dict
                     comprehension / dict() over `enumerate` with the counter as the VALUE);
                     names assigned from any of these.
  truth contexts     if / while / assert / conditional-expression tests, comprehension filters,
                     operands of `and` / `or`, operand of `not`.

Comparisons (`is None`, `in`, `==`, `<`) are not truth tests.
"""
from __future__ import annotations

import ast
import re
from typing import Dict, Iterable, List, Set, Tuple

from .symex import u


# the code base's naming idiom for dicts whose VALUES are positions / indices (confirmed by reading:
# _element_positions_by_id, element_idxs_by_id, remaining_element_idxs_by_id, _subtotal_idxs_by_id ...)
_MAP_NAME = re.compile(r"(position|positions|idx|idxs|index|indexes|indices)_by_")


def _enumerate_counters(gens: Iterable[ast.comprehension]) -> Set[str]:
    out = set()
    for g in gens:
        if isinstance(g.iter, ast.Call) and isinstance(g.iter.func, ast.Name) and g.iter.func.id == "enumerate":
            if isinstance(g.target, ast.Tuple) and g.target.elts and isinstance(g.target.elts[0], ast.Name):
                out.add(g.target.elts[0].id)
    return out


def is_position_map_expr(e: ast.AST) -> bool:
    """{key: counter for counter, key in enumerate(..)}"""
    if isinstance(e, ast.DictComp):
        counters = _enumerate_counters(e.generators)
        return isinstance(e.value, ast.Name) and e.value.id in counters
    return False


def position_map_members(class_nodes: Iterable[ast.ClassDef]) -> Set[str]:
    """Names of members (properties / methods) that return a position map."""
    out: Set[str] = set()
    for c in class_nodes:
        for f in c.body:
            if isinstance(f, ast.FunctionDef):
                rets = [n.value for n in ast.walk(f) if isinstance(n, ast.Return) and n.value is not None]
                if rets and all(is_position_map_expr(r) for r in rets):
                    out.add(f.name)
    return out


class _Fn:
    def __init__(self, fn: ast.FunctionDef, map_members: Set[str]):
        self.fn = fn
        self.map_members = map_members
        self.local_maps: Set[str] = set()
        self.pos_names: Set[str] = set()
        self._solve()

    def _is_map(self, e: ast.AST) -> bool:
        if isinstance(e, ast.Attribute) and (e.attr in self.map_members or _MAP_NAME.search(e.attr)):
            return True
        if isinstance(e, ast.Name) and (e.id in self.local_maps or _MAP_NAME.search(e.id)):
            return True
        return is_position_map_expr(e)

    def is_position(self, e: ast.AST) -> bool:
        if isinstance(e, ast.Name):
            return e.id in self.pos_names
        if isinstance(e, ast.NamedExpr):
            return self.is_position(e.value)
        if isinstance(e, ast.Call) and isinstance(e.func, ast.Attribute):
            if e.func.attr == "index" and len(e.args) == 1 and not e.keywords:
                return True
            if e.func.attr == "pop" and self._is_map(e.func.value) and len(e.args) == 1:
                return True
            if e.func.attr == "get" and self._is_map(e.func.value) and (len(e.args) == 1 or (len(e.args) == 2 and isinstance(e.args[1], ast.Constant) and e.args[1].value is None)):
                return True
        if isinstance(e, ast.Subscript) and self._is_map(e.value):
            return True
        return False

    def _solve(self):
        changed = True
        # counters of enumerate loops / comprehensions
        for n in ast.walk(self.fn):
            if isinstance(n, ast.For) and isinstance(n.iter, ast.Call) and isinstance(n.iter.func, ast.Name) and n.iter.func.id == "enumerate":
                if isinstance(n.target, ast.Tuple) and n.target.elts and isinstance(n.target.elts[0], ast.Name):
                    self.pos_names.add(n.target.elts[0].id)
            if isinstance(n, (ast.ListComp, ast.GeneratorExp, ast.SetComp, ast.DictComp)):
                self.pos_names |= _enumerate_counters(n.generators)
        while changed:
            changed = False
            for n in ast.walk(self.fn):
                tgt_val: List[Tuple[ast.AST, ast.AST]] = []
                if isinstance(n, ast.Assign) and len(n.targets) == 1:
                    tgt_val.append((n.targets[0], n.value))
                elif isinstance(n, ast.AnnAssign) and n.value is not None:
                    tgt_val.append((n.target, n.value))
                elif isinstance(n, ast.NamedExpr):
                    tgt_val.append((n.target, n.value))
                for t, v in tgt_val:
                    if not isinstance(t, ast.Name):
                        continue
                    if self._is_map(v) and t.id not in self.local_maps:
                        self.local_maps.add(t.id)
                        changed = True
                    if self.is_position(v) and t.id not in self.pos_names:
                        self.pos_names.add(t.id)
                        changed = True

    def truth_tested(self) -> List[Tuple[int, str, str]]:
        """(line, context, expression) of every truth test of a position-valued expression."""
        out: List[Tuple[int, str, str]] = []

        def test(e: ast.AST, ctx: str):
            while isinstance(e, ast.UnaryOp) and isinstance(e.op, ast.Not):
                e = e.operand
                ctx = "not"
            if isinstance(e, ast.BoolOp):
                for v in e.values:
                    test(v, "and/or operand")
                return
            if self.is_position(e):
                out.append((getattr(e, "lineno", 0), ctx, u(e)))

        for n in ast.walk(self.fn):
            if isinstance(n, (ast.If, ast.While)):
                test(n.test, "if")
            elif isinstance(n, ast.IfExp):
                test(n.test, "conditional expression")
            elif isinstance(n, ast.Assert):
                test(n.test, "assert")
            elif isinstance(n, ast.comprehension):
                for c in n.ifs:
                    test(c, "comprehension filter")
            elif isinstance(n, ast.BoolOp):
                # value context `a or b`: every operand but the last is truth-tested
                for v in n.values[:-1]:
                    test(v, "and/or operand")
            elif isinstance(n, ast.UnaryOp) and isinstance(n.op, ast.Not):
                test(n.operand, "not")
        # de-duplicate (a BoolOp inside an if is visited twice)
        seen, uniq = set(), []
        for item in out:
            if (item[0], item[2]) not in seen:
                seen.add((item[0], item[2]))
                uniq.append(item)
        return uniq


def scan_module(tree: ast.Module, map_members: Set[str]):
    """-> (functions scanned, position expressions found, [(qualname, line, context, expr)])"""
    n_fn = n_pos = 0
    hits = []

    def visit(body, prefix):
        nonlocal n_fn, n_pos
        for node in body:
            if isinstance(node, ast.ClassDef):
                visit(node.body, prefix + node.name + ".")
            elif isinstance(node, ast.FunctionDef):
                n_fn += 1
                f = _Fn(node, map_members)
                n_pos += sum(1 for x in ast.walk(node) if isinstance(x, (ast.Call, ast.Subscript, ast.Name)) and f.is_position(x))
                for line, c, e in f.truth_tested():
                    hits.append((prefix + node.name, line, c, e))

    visit(tree.body, "")
    return n_fn, n_pos, hits


POSITIVE_CONTROL = '''
class K:
    def _element_positions_by_id(self):
        return {element_id: position for position, element_id in enumerate(self._order)}

    def a(self, anchor):
        anchor_position = self._element_positions_by_id.get(anchor.get("alias"))
        return (anchor_position, 1) if anchor_position else (sys.maxsize, 0)

    def b(self, xs, x):
        i = xs.index(x)
        if not i:
            return None
        for idx, y in enumerate(xs):
            if idx and y:
                return idx

    def ok(self, anchor):
        pos = self._element_positions_by_id.get(anchor)
        if pos is None or pos < 0:
            return 0
        return pos
'''


def self_check() -> int:
    tree = ast.parse(POSITIVE_CONTROL)
    maps = position_map_members([n for n in ast.walk(tree) if isinstance(n, ast.ClassDef)])
    _, _, hits = scan_module(tree, maps)
    return len(hits)


# --------------------------------------------------------------------------- sign tests on signed order indexes
def strict_zero_tests(fn: ast.AST) -> List[Tuple[int, str, str]]:
    """A signed order index is >= 0 for a base element (0 is the FIRST element) and < 0 for an insertion.  `idx > 0` /
    `idx <= 0` on an item of an order misclassifies element 0.  -> [(line, test, iterated expression)]"""
    assigns: Dict[str, ast.expr] = {}
    for n in ast.walk(fn):
        if isinstance(n, ast.Assign) and len(n.targets) == 1 and isinstance(n.targets[0], ast.Name):
            assigns.setdefault(n.targets[0].id, n.value)
    out = []
    for lp in ast.walk(fn):
        if not isinstance(lp, (ast.For, ast.comprehension)) or not isinstance(lp.target, ast.Name):
            continue
        it = lp.iter
        it_text = u(assigns.get(it.id, it)) if isinstance(it, ast.Name) else u(it)
        full = (u(it) + " " + it_text).lower()
        if "order" not in full and "_idxs" not in full:
            continue
        var = lp.target.id
        scope = (lp.ifs if isinstance(lp, ast.comprehension) else lp.body)
        # the element expression of a comprehension is not reachable from the `comprehension` node: scan the whole function
        # for comparisons of this variable - a name is rarely reused for something else inside one function
        for c in ast.walk(fn):
            if isinstance(c, ast.Compare) and len(c.ops) == 1:
                l, r, op = c.left, c.comparators[0], c.ops[0]
                zero = lambda x: isinstance(x, ast.Constant) and x.value == 0 and not isinstance(x.value, bool)
                if isinstance(l, ast.Name) and l.id == var and zero(r) and isinstance(op, (ast.Gt, ast.LtE)):
                    out.append((c.lineno, u(c), u(it)[:60]))
                elif isinstance(r, ast.Name) and r.id == var and zero(l) and isinstance(op, (ast.Lt, ast.GtE)):
                    out.append((c.lineno, u(c), u(it)[:60]))
    seen, uniq = set(), []
    for x in out:
        if (x[0], x[1]) not in seen:
            seen.add((x[0], x[1]))
            uniq.append(x)
    return uniq


SIGN_CONTROL = '''
def _display_order(self):
    order = self._order
    if self._prune_subtotals:
        order = tuple(idx for idx in order if not isinstance(idx, str) and idx > 0)
    return np.array(order)

def ok(self):
    return [idx for idx in self._order if idx >= 0] + [i for i in self._order if i < 0]
'''


def sign_self_check() -> int:
    t = ast.parse(SIGN_CONTROL)
    return sum(len(strict_zero_tests(f)) for f in t.body)


def scan_sign_tests(repo, shorts):
    n, hits = 0, []
    for mod in repo.modules.values():
        short = mod.path.split("cr/cube/")[-1]
        if short not in shorts:
            continue
        for ci in mod.classes.values():
            for m in ci.members.values():
                n += 1
                for _line, test, it in strict_zero_tests(m.node):
                    hits.append((f"{short}::{ci.name}.{m.name} [{test}]", test, it))
    return n, hits


# --------------------------------------------------------------------------- truth tests of element / insertion ids
_ID_ATTRS = ("element_id", "insertion_id", "anchor_id", "subvar_id")


def _is_id_source(e: ast.AST) -> bool:
    if isinstance(e, ast.Call) and isinstance(e.func, ast.Attribute) and e.func.attr == "translate_element_id":
        return True
    if isinstance(e, ast.Attribute) and e.attr in _ID_ATTRS:
        return True
    return False


_ID_KEYS = ("element_id", "insertion_id", "anchor_id", "subvar_id")


def id_truth_tests(fn: ast.AST, class_consts=None) -> List[Tuple[int, str, str]]:
    """An element id may be 0 (and an alias may be the empty string): `if not element_id`, `x if shimmed_id else ..`
    treats a VALID id as absent.  Absence is `is None`.  Ids read from a spec dict count too: `d.get("element_id")`,
    `d[key]` with `key` taken from a table of id field names (class constants resolved through `class_consts`)."""
    class_consts = class_consts or {}
    assigned = {}
    for n in ast.walk(fn):
        if isinstance(n, ast.Assign) and len(n.targets) == 1 and isinstance(n.targets[0], ast.Name):
            assigned.setdefault(n.targets[0].id, []).append(n.value)

    def strings_of(e, depth=0):
        out = []
        for x in ast.walk(e):
            if isinstance(x, ast.Constant) and isinstance(x.value, str):
                out.append(x.value)
            elif isinstance(x, ast.Attribute) and isinstance(x.value, ast.Name) and x.value.id in ("self", "cls") and x.attr in class_consts and depth < 2:
                c = class_consts[x.attr]
                # of a table {method: field name} the VALUES are what a lookup returns
                vals = c.values if isinstance(c, ast.Dict) else [c]
                for v in vals:
                    out += strings_of(v, depth + 1)
        return out

    def key_is_id(k) -> bool:
        if isinstance(k, ast.Constant):
            return k.value in _ID_KEYS
        if isinstance(k, ast.Name) and k.id in assigned:
            ss = [t for v in assigned[k.id] for t in strings_of(v)]
            return bool(ss) and all(t in _ID_KEYS for t in ss)
        return False

    def dict_id_read(e) -> bool:
        if isinstance(e, ast.Call) and isinstance(e.func, ast.Attribute) and e.func.attr == "get" and e.args:
            return key_is_id(e.args[0])
        if isinstance(e, ast.Subscript) and not isinstance(e.slice, ast.Slice):
            return key_is_id(e.slice)
        return False

    _ID_LIST_KEYS = ("top", "bottom", "element_ids")

    def id_collection(e, depth=0) -> bool:
        """a LIST of ids read from an order spec: `spec.get("element_ids")`, `fixed.get(group)`, `self._top_fixed_ids`, ... `or ()`"""
        while True:
            if isinstance(e, ast.BoolOp) and isinstance(e.op, ast.Or):
                e = e.values[0]
                continue
            if isinstance(e, ast.Call) and u(e.func) in ("tuple", "list", "iter", "sorted", "reversed", "enumerate") and e.args:
                e = e.args[0]
                continue
            break
        if isinstance(e, (ast.Attribute, ast.Name)):
            name = e.attr if isinstance(e, ast.Attribute) else e.id
            if name.endswith("_ids") or name == "element_ids":
                return True
            if isinstance(e, ast.Name) and e.id in assigned and depth < 3:
                return any(id_collection(v, depth + 1) for v in assigned[e.id])
            return False
        key, recv = None, None
        if isinstance(e, ast.Call) and isinstance(e.func, ast.Attribute) and e.func.attr == "get" and e.args:
            key, recv = e.args[0], e.func.value
        elif isinstance(e, ast.Subscript) and not isinstance(e.slice, ast.Slice):
            key, recv = e.slice, e.value
        if key is None:
            return False
        if isinstance(key, ast.Constant):
            return key.value in _ID_LIST_KEYS
        # `fixed.get(group)`: the receiver is the "fixed" object of an order spec
        def is_fixed(r, d=0):
            t = u(r)
            if "'fixed'" in t or '"fixed"' in t:
                return True
            if isinstance(r, ast.BoolOp):
                return any(is_fixed(v, d) for v in r.values)
            if isinstance(r, ast.Name) and r.id in assigned and d < 3:
                return any(is_fixed(v, d + 1) for v in assigned[r.id])
            return False
        return is_fixed(recv)

    id_names: Set[str] = set()
    for n in ast.walk(fn):
        if isinstance(n, (ast.comprehension, ast.For)) and isinstance(n.target, ast.Name) and id_collection(n.iter):
            id_names.add(n.target.id)
    changed = True
    while changed:
        changed = False
        for n in ast.walk(fn):
            if isinstance(n, ast.Assign) and len(n.targets) == 1 and isinstance(n.targets[0], ast.Name):
                v = n.value
                if (_is_id_source(v) or dict_id_read(v) or (isinstance(v, ast.Name) and v.id in id_names)) and n.targets[0].id not in id_names:
                    id_names.add(n.targets[0].id)
                    changed = True

    def is_id(e):
        return _is_id_source(e) or dict_id_read(e) or (isinstance(e, ast.Name) and e.id in id_names)

    out = []

    def test(e, ctx):
        while isinstance(e, ast.UnaryOp) and isinstance(e.op, ast.Not):
            e = e.operand
            ctx = "not"
        if isinstance(e, ast.BoolOp):
            for v in e.values:
                test(v, "and/or operand")
            return
        if is_id(e):
            out.append((getattr(e, "lineno", 0), ctx, u(e)))

    for n in ast.walk(fn):
        if isinstance(n, (ast.If, ast.While)):
            test(n.test, "if")
        elif isinstance(n, ast.IfExp):
            test(n.test, "conditional expression")
        elif isinstance(n, ast.comprehension):
            for c in n.ifs:
                test(c, "comprehension filter")
        elif isinstance(n, ast.BoolOp):
            for v in n.values[:-1]:
                test(v, "and/or operand")
    seen, uniq = set(), []
    for x in out:
        if (x[0], x[2]) not in seen:
            seen.add((x[0], x[2]))
            uniq.append(x)
    return uniq


ID_CONTROL = '''
def _fixed(self, group):
    fixed = self._order_dict.get("fixed") or {}
    return tuple(element_id for element_id in fixed.get(group) or () if element_id)

def _idx(self, dim, element_id):
    shimmed_id = dim.translate_element_id(element_id)
    if not shimmed_id:
        raise ValueError("unknown")
    return dim.element_ids.index(shimmed_id)

def ok(self, dim):
    i = dim.translate_element_id(self._order_spec.element_id)
    return None if i is None else dim.element_ids.index(i)
'''


def id_self_check() -> int:
    t = ast.parse(ID_CONTROL)
    return sum(len(id_truth_tests(f)) for f in t.body)


# --------------------------------------------------------------------------- truth tests of payload values
def payload_value_truth_tests(fn: ast.AST) -> List[Tuple[int, str, str]]:
    """Values taken from the response (an element's "value" / "id", a category's numeric value) may be 0 or "": a bare
    truth test (`{v for v in values if v}`, `if value:`) drops exactly those.  Tracked: names bound from `x.get("value")`,
    `x["value"]`, `x.get("id")`, `x["id"]`; loop variables over such collections or over calls of local helpers that return
    them."""
    KEYS = ("value", "id")

    def is_payload_read(e):
        if isinstance(e, ast.Call) and isinstance(e.func, ast.Attribute) and e.func.attr == "get" and e.args and isinstance(e.args[0], ast.Constant) and e.args[0].value in KEYS:
            return True
        if isinstance(e, ast.Subscript) and isinstance(e.slice, ast.Constant) and e.slice.value in KEYS:
            return True
        return False

    # local helpers that return a payload value
    helpers = set()
    for n in ast.walk(fn):
        if isinstance(n, ast.FunctionDef) and n is not fn:
            names = set()
            for a in ast.walk(n):
                if isinstance(a, ast.Assign) and isinstance(a.targets[0], ast.Name) and is_payload_read(a.value):
                    names.add(a.targets[0].id)
            for r in ast.walk(n):
                if isinstance(r, ast.Return) and r.value is not None and (is_payload_read(r.value) or any(isinstance(x, ast.Name) and x.id in names for x in ast.walk(r.value))):
                    helpers.add(n.name)
    def is_value_elt(e):
        return is_payload_read(e) or (isinstance(e, ast.Call) and isinstance(e.func, ast.Name) and e.func.id in helpers)

    # names of COLLECTIONS of payload values: values = [row_value(el) for el in elements]
    collections = set()
    for n in ast.walk(fn):
        if isinstance(n, ast.Assign) and isinstance(n.targets[0], ast.Name):
            v = n.value
            while isinstance(v, ast.Call) and u(v.func) in ("list", "tuple", "set", "frozenset", "sorted") and v.args:
                v = v.args[0]
            if isinstance(v, (ast.ListComp, ast.GeneratorExp, ast.SetComp)) and is_value_elt(v.elt):
                collections.add(n.targets[0].id)
    value_names = set()
    for n in ast.walk(fn):
        if isinstance(n, (ast.comprehension, ast.For)) and isinstance(n.target, ast.Name) and isinstance(n.iter, ast.Name) and n.iter.id in collections:
            value_names.add(n.target.id)
    for n in ast.walk(fn):
        if isinstance(n, ast.Assign) and isinstance(n.targets[0], ast.Name) and is_payload_read(n.value):
            value_names.add(n.targets[0].id)
        if isinstance(n, (ast.comprehension, ast.For)) and isinstance(n.target, ast.Name):
            it = n.iter
            from_helper = any(isinstance(c, ast.Call) and ((isinstance(c.func, ast.Name) and c.func.id in helpers) or (u(c.func) == "map" and c.args and isinstance(c.args[0], ast.Name) and c.args[0].id in helpers)) for c in ast.walk(it))
            elt_payload = isinstance(it, (ast.ListComp, ast.GeneratorExp)) and is_payload_read(it.elt)
            if from_helper or elt_payload:
                value_names.add(n.target.id)
    out = []

    def test(e, ctx):
        while isinstance(e, ast.UnaryOp) and isinstance(e.op, ast.Not):
            e = e.operand
        if isinstance(e, ast.BoolOp):
            for v in e.values:
                test(v, ctx)
            return
        if (isinstance(e, ast.Name) and e.id in value_names) or is_payload_read(e):
            out.append((getattr(e, "lineno", 0), ctx, u(e)))

    for n in ast.walk(fn):
        if isinstance(n, (ast.If, ast.While)):
            test(n.test, "if")
        elif isinstance(n, ast.IfExp):
            test(n.test, "conditional expression")
        elif isinstance(n, ast.comprehension):
            for c in n.ifs:
                test(c, "comprehension filter")
    seen, uniq = set(), []
    for x in out:
        if (x[0], x[2]) not in seen:
            seen.add((x[0], x[2]))
            uniq.append(x)
    return uniq


PAYLOAD_CONTROL = '''
def augment(self, cube_resp, elements):
    def row_value(element):
        value = element.get("value")
        return value if isinstance(value, (int, str)) else None
    present = {v for v in map(row_value, cube_resp["elements"]) if v}
    return [item["id"] for item in elements if row_value(item) in present]

def ok(self, cube_resp):
    return [el.get("value") for el in cube_resp["elements"] if isinstance(el.get("value"), (int, str))]
'''


def payload_self_check() -> int:
    t = ast.parse(PAYLOAD_CONTROL)
    return sum(len(payload_value_truth_tests(f)) for f in t.body)


# --------------------------------------------------------------------------- any()/all() over a collection of positions or ids
_COLLECTION_SUFFIXES = ("_idxs", "_ids", "_indices", "_indexes", "_idx_array")


def _is_position_collection(e: ast.AST) -> bool:
    while isinstance(e, ast.Call) and u(e.func) in ("tuple", "list", "np.array", "np.asarray", "sorted", "set", "frozenset") and e.args:
        e = e.args[0]
    if isinstance(e, ast.Name):
        return e.id.endswith(_COLLECTION_SUFFIXES) or e.id in ("idxs", "ids", "order")
    if isinstance(e, ast.Attribute):
        return e.attr.endswith(_COLLECTION_SUFFIXES)
    return False


def value_any_tests(fn: ast.AST) -> List[Tuple[int, str]]:
    """`any(idxs)` / `np.any(idxs)` / `all(ids)` ask whether some VALUE is non-zero, not whether the collection is
    non-empty: the collection (0,) - the first element alone - reads as empty."""
    out = []
    for n in ast.walk(fn):
        if isinstance(n, ast.Call) and u(n.func) in ("any", "all", "np.any", "np.all", "np.count_nonzero") and len(n.args) >= 1 and _is_position_collection(n.args[0]):
            out.append((n.lineno, u(n)[:80]))
    return out


ANY_CONTROL = '''
def f(self, empty_idxs):
    self._empty_idxs = tuple(int(i) for i in empty_idxs) if np.any(empty_idxs) else ()

def ok(self, empty_idxs, order):
    a = any(idx < 0 for idx in order)
    b = np.any(np.array(empty_idxs) < 0)
    return tuple(empty_idxs) if len(empty_idxs) else ()
'''


def any_self_check() -> Tuple[int, int]:
    t = ast.parse(ANY_CONTROL)
    return len(value_any_tests(t.body[0])), len(value_any_tests(t.body[1]))
