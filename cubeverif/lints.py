"""Generic lints: constructs that are wrong wherever they stand in this code base (each is positive evidence).

floor-division   counts and bases are weighted (fractional): `//` truncates
int-cast         `.astype(int / 'int64')` outside the median code (the median is specified for integer counts only)
literal-identity `x is 0`, `x is "top"`: identity of literals is an interpreter accident (`==` is meant)
unordered        a set turned into a sequence / iterated without sorting where an ORDERED result is built
"""
from __future__ import annotations

import ast
from typing import List, Tuple

from .symex import u

_INT_TYPES = ("int", "np.int64", "np.int32", "np.int_", "'int64'", '"int64"', "'int'", '"int"', "'int32'")


def scan_function(fn: ast.AST, member_name: str, ordering_scope: bool, helpers=()) -> List[Tuple[str, str, str]]:
    """-> [(kind, construct text, why)]   `helpers`: the private helpers of the same class that `fn` calls (an orientation
    decided here may be APPLIED there)."""
    out = []
    # shape validation (`if a.shape[0] != b.shape[0]: raise`, assert) is not an orientation decision
    validation = set()
    for n in ast.walk(fn):
        if isinstance(n, ast.Assert) or (isinstance(n, ast.If) and n.body and isinstance(n.body[0], ast.Raise)):
            validation |= {id(x) for x in ast.walk(n.test)}
    orientation = None
    for n in ast.walk(fn):
        if isinstance(n, ast.Compare) and id(n) not in validation and _extent_equality(n) and not _inside_test(fn, n):
            if orientation is None:
                orientation = _has_orientation_op(fn) or any(_has_orientation_op(h) for h in helpers)
            if orientation:
                out.append(("extent-guessed-orientation", u(n)[:70], "whether a vector runs along the rows or the columns is decided by comparing its LENGTH with an extent of the block: both match when the block is square, and the vector is laid out the wrong way"))
    out += _int_only_value_tests(fn)
    out += _aliased_accumulators(fn)
    out += _zero_replaced_quantities(fn)
    out += _int_prealloc_stores(fn, helpers)
    out += _quantity_truthiness(fn)
    for n in ast.walk(fn):
        if isinstance(n, ast.BinOp) and isinstance(n.op, ast.FloorDiv):
            out.append(("floor-division", u(n)[:70], "weighted counts and bases are fractional: integer division truncates them"))
        if isinstance(n, ast.AugAssign) and isinstance(n.op, ast.FloorDiv):
            out.append(("floor-division", u(n)[:70], "weighted counts and bases are fractional: integer division truncates them"))
        if (isinstance(n, ast.Call) and isinstance(n.func, ast.Attribute) and n.func.attr == "astype" and n.args and u(n.args[0]) in _INT_TYPES and "median" not in member_name and not _only_repeat_counts(fn, n)
                # positions are integers already: np.flatnonzero / np.nonzero / np.where(cond) / np.argsort / np.arange results
                and not (isinstance(n.func.value, ast.Call) and u(n.func.value.func) in ("np.flatnonzero", "np.nonzero", "np.argsort", "np.arange", "np.argwhere", "np.searchsorted", "np.argmax", "np.argmin"))):
            out.append(("int-cast", u(n)[:70], "weighted counts / values are fractional: the cast truncates them (integer counts are specified for the median only)"))
        if isinstance(n, ast.Compare):
            for op, c in zip(n.ops, n.comparators):
                if isinstance(op, (ast.Is, ast.IsNot)) and isinstance(c, ast.Constant) and c.value is not None and not isinstance(c.value, bool):
                    out.append(("literal-identity", u(n)[:70], "`is` compares object identity: equal ints / strings from a JSON payload are not the same object"))
            if isinstance(n.ops[0], (ast.Is, ast.IsNot)) and isinstance(n.left, ast.Constant) and n.left.value is not None and not isinstance(n.left.value, bool):
                out.append(("literal-identity", u(n)[:70], "`is` compares object identity"))
        if isinstance(n, ast.Call) and u(n.func) in ("np.unique", "np.union1d", "np.intersect1d") and not ordering_scope:
            out.append(("dedupe-values", u(n)[:70], "de-duplicates (and sorts) its input: categories / cells that share a value collapse into one and their respondents drop out"))
        if (isinstance(n, ast.Call) and isinstance(n.func, ast.Name) and n.func.id in ("min", "max") and len(n.args) >= 2 and not any(k.arg == "key" for k in n.keywords)
                and any(isinstance(a, ast.Constant) and isinstance(a.value, float) for a in n.args) and not any("len(" in u(a) for a in n.args)):
            # a FLOAT bound next to a computed value (integer arithmetic on lengths cannot be NaN)
            out.append(("nan-unsafe-clamp", u(n)[:70], "builtin min / max return their FIRST argument when the comparison with NaN is False: min(1.0, nan) is 1.0 - an undefined value is replaced by the bound"))
        if isinstance(n, ast.Call) and u(n.func) in ("np.isclose", "np.allclose", "math.isclose"):
            out.append(("tolerance-comparison", u(n)[:70], "values within the tolerance are taken for equal: exact zeros / equalities decide where a measure is NaN, which measure is reported and which elements tie"))
        if isinstance(n, ast.Call) and (u(n.func) in ("round", "np.round", "np.around", "np.round_") or (isinstance(n.func, ast.Attribute) and n.func.attr == "round" and not u(n.func).startswith("np."))):
            out.append(("quantised-value", u(n)[:70], "a measure is reported (and compared) as computed: rounding makes distinct values equal and moves values across thresholds"))
        if isinstance(n, ast.BoolOp) and isinstance(n.op, ast.Or) and len(n.values) == 2:
            from .mirror import swap_ident as _swap

            a, b = n.values
            if isinstance(a, ast.Attribute) and isinstance(b, ast.Attribute) and u(a.value) == u(b.value) and a.attr != b.attr and _swap(a.attr) == b.attr:
                out.append(("twin-collections-or", u(n)[:70], "`rows_thing or columns_thing` is the rows' collection whenever that is non-empty: the columns' one is consulted only when there are no rows - the two directions are not treated alike (and `or` does not concatenate)"))
        if isinstance(n, ast.DictComp) and isinstance(n.key, ast.Attribute) and n.key.attr in ("insertion_id", "name", "label", "anchor"):
            out.append(("non-unique-key", u(n)[:80], f"`.{n.key.attr}` is not unique within a dimension (explicit insertion ids may repeat or collide with generated ones; names and anchors repeat freely): a later entry replaces an earlier one"))
        if isinstance(n, (ast.If, ast.IfExp)) and _extent_equality(n.test) and _has_orientation_op(fn):
            out.append(("extent-guessed-orientation", u(n.test)[:70], "whether a vector runs along the rows or the columns is decided by comparing its LENGTH with an extent of the block: both match when the block is square (as many inserted columns as rows), and the vector is laid out the wrong way"))
        if ordering_scope:
            if isinstance(n, (ast.For, ast.comprehension)) and isinstance(n.iter, ast.Call) and u(n.iter.func) in ("set", "frozenset"):
                out.append(("unordered", u(n.iter)[:70], "iteration order of a set is arbitrary: the order built from it is not the specified one"))
            if isinstance(n, ast.Call) and u(n.func) in ("list", "tuple", "np.array", "np.fromiter") and n.args and isinstance(n.args[0], ast.Call) and u(n.args[0].func) in ("set", "frozenset"):
                out.append(("unordered", u(n)[:70], "a set turned into a sequence has arbitrary order"))
    return out


import re as _re

_QUANTITY_NAME = _re.compile(r"(^|_)(base|bases|margin|margins|table_base|table_margin|weighted_n|unweighted_n)$")


def _quantity_truthiness(fn: ast.AST) -> List[Tuple[str, str, str]]:
    """`bool(table_base)`, `if not self._base:`, `base and ...`: a base or margin of exactly ZERO is a defined value (an empty
    table has base 0, not "no base"); absence is `None` and is tested with `is None`.  Reported for a bare name / attribute whose
    last identifier is a base / margin word (calls such as `counts.any()` are questions about content and are left alone)."""
    def quantity(e) -> bool:
        if isinstance(e, ast.Attribute):
            return bool(_QUANTITY_NAME.search(e.attr))
        if isinstance(e, ast.Name):
            return bool(_QUANTITY_NAME.search(e.id))
        return False

    tested = []

    def operands(t):
        if isinstance(t, ast.BoolOp):
            for v in t.values:
                yield from operands(v)
        elif isinstance(t, ast.UnaryOp) and isinstance(t.op, ast.Not):
            yield from operands(t.operand)
        else:
            yield t

    for n in ast.walk(fn):
        if isinstance(n, (ast.If, ast.While, ast.IfExp)):
            tested += list(operands(n.test))
        elif isinstance(n, ast.BoolOp):
            tested += [x for v in n.values[:-1] for x in operands(v)]
        elif isinstance(n, ast.Call) and isinstance(n.func, ast.Name) and n.func.id == "bool" and len(n.args) == 1:
            tested += list(operands(n.args[0]))
    out, seen = [], set()
    for t in tested:
        if quantity(t) and u(t) not in seen:
            seen.add(u(t))
            out.append(("quantity-truthiness", u(t)[:70], "a base / margin of exactly zero is a value (an empty table), not an absent one: the truth test treats it as undefined"))
    return out


def _is_int_alloc(e: ast.AST, helpers=()) -> bool:
    """An array that can hold INTEGERS only: np.full(shape, 0) / np.full(shape, 1) without dtype, np.zeros / ones / empty with an
    integer dtype - directly or handed back by a helper of the class."""
    if not isinstance(e, ast.Call):
        return False
    f = u(e.func)
    dtype = next((k.value for k in e.keywords if k.arg == "dtype"), None)
    if f == "np.full" and len(e.args) >= 2 and dtype is None and len(e.args) < 3:
        v = e.args[1]
        return isinstance(v, ast.Constant) and isinstance(v.value, int) and not isinstance(v.value, bool)
    if f in ("np.zeros", "np.ones", "np.empty", "np.full"):
        d = dtype if dtype is not None else (e.args[1] if f != "np.full" and len(e.args) >= 2 else (e.args[2] if f == "np.full" and len(e.args) >= 3 else None))
        return d is not None and u(d) in _INT_TYPES
    if isinstance(e.func, ast.Attribute) and isinstance(e.func.value, ast.Name) and e.func.value.id in ("self", "cls"):
        for h in helpers:
            if getattr(h, "name", None) == e.func.attr:
                rets = [r.value for r in ast.walk(h) if isinstance(r, ast.Return) and r.value is not None]
                return bool(rets) and all(_is_int_alloc(r) for r in rets)
    return False


def _int_prealloc_stores(fn: ast.AST, helpers=()) -> List[Tuple[str, str, str]]:
    """`block = np.full(shape, 0)` ... `block[:, i] = <computed vector>`: the template holds int64, the weighted (fractional)
    values written into it are truncated toward zero without a word."""
    allocs = {}
    for n in ast.walk(fn):
        if isinstance(n, ast.Assign) and len(n.targets) == 1 and isinstance(n.targets[0], ast.Name) and _is_int_alloc(n.value, helpers):
            allocs[n.targets[0].id] = n
    out = []
    for n in ast.walk(fn):
        if isinstance(n, (ast.Assign, ast.AugAssign)):
            targets = n.targets if isinstance(n, ast.Assign) else [n.target]
            for t in targets:
                if isinstance(t, ast.Subscript) and isinstance(t.value, ast.Name) and t.value.id in allocs:
                    v = n.value
                    if isinstance(v, ast.Constant) and isinstance(v.value, int):
                        continue
                    out.append(("int-prealloc", f"{u(allocs[t.value.id])[:40]} ... {u(n)[:40]}", "an integer array is filled with computed (weighted, fractional) values: they are truncated toward zero"))
    return out


def _zero_replaced_quantities(fn: ast.AST) -> List[Tuple[str, str, str]]:
    """`base or 1.0`, `total or np.nan`: a base / margin / count / total of exactly ZERO is a value (the quotient by it is
    undefined, NaN) - `or` replaces it by the stand-in and the measure reports a number (0 / 1 = 0.0) where it is
    undefined.  (A None test is spelled `is None`.)"""
    from .stmts import resolver

    res = None
    out = []
    WORDS = ("base", "margin", "count", "total", "weighted_n", "denominator")
    for n in ast.walk(fn):
        if not (isinstance(n, ast.BoolOp) and isinstance(n.op, ast.Or) and len(n.values) == 2):
            continue
        a, b = n.values
        number = (isinstance(b, ast.Constant) and isinstance(b.value, (int, float)) and not isinstance(b.value, bool)) or u(b) in ("np.nan", "np.inf", "float('nan')")
        if not number:
            continue
        if res is None:
            res = resolver(fn, multi=True)
        try:
            vals = res(a)
        except Exception:
            vals = [a]
        texts = [u(v) for v in vals] + [u(a)]
        # a dict lookup (`spec.get("window") or 2`) is a question about presence, not a measured quantity
        if any(".get(" in t for t in texts):
            continue
        if any(w in t.lower() for t in texts for w in WORDS):
            out.append(("zero-replaced-quantity", u(n)[:70], "a base / total of exactly zero is a value: `or` swaps it for the stand-in, and the quotient reports a number where it is undefined"))
    return out


_FRESH_MUTABLE_CALLS = ("list", "dict", "set", "np.zeros", "np.ones", "np.empty", "np.full", "np.zeros_like", "np.full_like", "np.empty_like", "collections.OrderedDict", "OrderedDict", "bytearray")


def _aliased_accumulators(fn: ast.AST) -> List[Tuple[str, str, str]]:
    """`a = b = [0] * n` binds ONE list to two names: filling `a[i]` and `b[i]` in turn leaves both with whatever was written
    last (the weighted count over the unweighted one).  Reported when a fresh mutable object is bound to two names in one
    chained assignment and BOTH names are written through afterwards."""
    out = []
    for n in ast.walk(fn):
        if not (isinstance(n, ast.Assign) and len(n.targets) >= 2 and all(isinstance(t, ast.Name) for t in n.targets)):
            continue
        v = n.value
        fresh = isinstance(v, (ast.List, ast.Dict, ast.Set, ast.ListComp, ast.DictComp, ast.SetComp)) or (
            isinstance(v, ast.BinOp) and isinstance(v.op, ast.Mult) and (isinstance(v.left, ast.List) or isinstance(v.right, ast.List))
        ) or (isinstance(v, ast.Call) and u(v.func) in _FRESH_MUTABLE_CALLS)
        if not fresh:
            continue
        names = [t.id for t in n.targets]
        written = set()
        for w in ast.walk(fn):
            tgt = None
            if isinstance(w, ast.Assign):
                for t0 in w.targets:
                    for t in (t0.elts if isinstance(t0, (ast.Tuple, ast.List)) else [t0]):
                        if isinstance(t, ast.Subscript) and isinstance(t.value, ast.Name):
                            written.add(t.value.id)
            elif isinstance(w, ast.AugAssign) and isinstance(w.target, ast.Subscript) and isinstance(w.target.value, ast.Name):
                written.add(w.target.value.id)
            elif isinstance(w, ast.Call) and isinstance(w.func, ast.Attribute) and isinstance(w.func.value, ast.Name) and w.func.attr in ("append", "extend", "insert", "update", "add", "setdefault", "fill", "put"):
                written.add(w.func.value.id)
        both = [x for x in names if x in written]
        if len(both) >= 2:
            out.append(("aliased-accumulators", u(n)[:70], f"{' and '.join(both)} are one object: what is written through one name is read through the other"))
    return out


def _int_only_value_tests(fn: ast.AST) -> List[Tuple[str, str, str]]:
    """isinstance(<element value>, (int, str)): the VALUE of a response element (`el["value"]`, `el.get("value")`) of a
    numeric variable may be fractional (1.5): a type test that lets int through but not float treats such an element as
    if it carried no value (the test is meant to exclude the missing element, whose value is a dict)."""
    from .stmts import resolver

    res = None
    out = []
    for n in ast.walk(fn):
        if not (isinstance(n, ast.Call) and isinstance(n.func, ast.Name) and n.func.id == "isinstance" and len(n.args) == 2):
            continue
        kinds = n.args[1].elts if isinstance(n.args[1], ast.Tuple) else [n.args[1]]
        names = {u(k) for k in kinds}
        if "int" not in names or names & {"float", "numbers.Number", "numbers.Real", "Number", "Real", "np.floating", "np.number"}:
            continue
        if res is None:
            res = resolver(fn, multi=True)
        try:
            vals = res(n.args[0])
        except Exception:
            vals = [n.args[0]]
        def is_value(v):
            if isinstance(v, ast.Subscript) and isinstance(v.slice, ast.Constant) and v.slice.value == "value":
                return True
            return isinstance(v, ast.Call) and isinstance(v.func, ast.Attribute) and v.func.attr == "get" and v.args and isinstance(v.args[0], ast.Constant) and v.args[0].value == "value"
        direct = [n.args[0]] + list(vals)
        # a loop / comprehension variable over a list of such values
        if any(is_value(v) for v in direct) or _iterates_values(fn, n.args[0], is_value, res):
            out.append(("int-only-value", u(n)[:70], "an element value may be a float (numeric variable with fractional values): a test that admits int but not float drops such elements"))
    return out


def _iterates_values(fn, target, is_value, res) -> bool:
    if not isinstance(target, ast.Name):
        return False
    for n in ast.walk(fn):
        if isinstance(n, (ast.For, ast.comprehension)):
            names = [x.id for x in ast.walk(n.target) if isinstance(x, ast.Name)]
            if target.id not in names:
                continue
            its = [n.iter] + (list(n.iter.args) if isinstance(n.iter, ast.Call) and u(n.iter.func) in ("zip", "enumerate") else [])
            for it in its:
                try:
                    vals = res(it)
                except Exception:
                    vals = [it]
                for v in vals:
                    if isinstance(v, (ast.ListComp, ast.GeneratorExp)) and is_value(v.elt):
                        return True
    return False


def _only_repeat_counts(fn: ast.AST, cast: ast.Call) -> bool:
    """The integer cast is the REPEAT COUNT of np.repeat(values, counts) - one value per (whole) respondent, the
    construction of the median, which is specified for integer counts - and is used for nothing else."""
    parents = {}
    for p_ in ast.walk(fn):
        for c in ast.iter_child_nodes(p_):
            parents[id(c)] = p_

    def is_repeat_arg(node):
        par = parents.get(id(node))
        return isinstance(par, ast.Call) and u(par.func) == "np.repeat" and len(par.args) >= 2 and par.args[1] is node

    if is_repeat_arg(cast):
        return True
    par = parents.get(id(cast))
    if isinstance(par, ast.Assign) and len(par.targets) == 1 and isinstance(par.targets[0], ast.Name):
        name = par.targets[0].id
        uses = [x for x in ast.walk(fn) if isinstance(x, ast.Name) and x.id == name and isinstance(x.ctx, ast.Load)]
        return bool(uses) and all(is_repeat_arg(x) for x in uses)
    return False


def _is_extent(e: ast.AST) -> bool:
    if isinstance(e, ast.Subscript) and isinstance(e.slice, ast.Constant) and isinstance(e.slice.value, int):
        t = u(e.value)
        return t.endswith(".shape") or t == "shape" or t.endswith("_shape")
    if isinstance(e, ast.Call) and u(e.func) == "len" and len(e.args) == 1:
        return True
    if isinstance(e, ast.Attribute) and e.attr == "size":
        return True
    return False


def _inside_test(fn: ast.AST, cmp_: ast.AST) -> bool:
    """The comparison IS the test of an if / conditional expression (reported by the statement-level rule below)."""
    for n in ast.walk(fn):
        if isinstance(n, (ast.If, ast.IfExp)):
            t = n.test
            while isinstance(t, ast.UnaryOp) and isinstance(t.op, ast.Not):
                t = t.operand
            if t is cmp_:
                return True
    return False


def _extent_equality(test: ast.AST) -> bool:
    while isinstance(test, ast.UnaryOp) and isinstance(test.op, ast.Not):
        test = test.operand
    return isinstance(test, ast.Compare) and len(test.ops) == 1 and isinstance(test.ops[0], (ast.Eq, ast.NotEq)) and _is_extent(test.left) and _is_extent(test.comparators[0]) and u(test.left) != u(test.comparators[0])


def _has_orientation_op(fn: ast.AST) -> bool:
    for n in ast.walk(fn):
        if isinstance(n, ast.Subscript) and isinstance(n.slice, ast.Tuple) and any((isinstance(x, ast.Constant) and x.value is None) or u(x) == "np.newaxis" for x in n.slice.elts):
            return True
        if isinstance(n, ast.Attribute) and n.attr == "T":
            return True
        if isinstance(n, ast.Call) and isinstance(n.func, ast.Attribute) and n.func.attr == "reshape" and {u(a) for a in n.args} & {"-1", "(-1, 1)", "(1, -1)"}:
            return True
        if isinstance(n, ast.Call) and u(n.func) in ("np.transpose", "np.atleast_2d", "np.expand_dims"):
            return True
    return False


ORIENTATION_CONTROL = '''
def _fill_block(vector, shape):
    if vector.shape[0] == shape[1]:
        return np.broadcast_to(vector, shape)
    return np.broadcast_to(vector[:, None], shape)

def ok(self, subtotal_rows):
    if subtotal_rows.shape[0] == 0:
        return subtotal_rows
    return np.broadcast_to(self._base_values[0, :][None, :], subtotal_rows.shape)
'''


def orientation_self_check() -> Tuple[int, int]:
    t = ast.parse(ORIENTATION_CONTROL)
    return tuple(sum(1 for k, _c, _w in scan_function(f, f.name, False) if k == "extent-guessed-orientation") for f in t.body)  # type: ignore[return-value]


CONTROL = '''
def f(self, counts, order):
    z = np.unique(counts) if False else min(1.0, self._fraction)
    by_id = {s.insertion_id: d for s, d in zip(self._subtotals, self._defaults)}
    a = counts // 2
    b = counts.astype("int64")
    if self._anchor is "top" or self._window is 2:
        pass
    for x in set(order):
        yield x
    return tuple(set(order))

def columns_scale_median_margin(self, c):
    return np.nan_to_num(c).astype("int64"), sorted(set(c)), c is None

def pad(self, elements):
    defined = bool(self._table_base)
    block = np.full((2, 3), 0)
    block[:, 0] = self._subtotal_column(elements)
    share = self._counts / (self._table_base or 1.0)
    any_difference = any(len(s.subtrahend_idxs) > 0 for s in self._row_subtotals or self._column_subtotals)
    same = np.isclose(self._weighted, self._unweighted).all()
    key = round(self._value, 12)
    a = b = [0] * len(elements)
    a[0], c = 1, 2
    b[0] = 2
    values = [el.get("value") for el in elements]
    return [v for v in values if isinstance(v, (int, str))] + [el for el in elements if isinstance(el["value"], (int, float, str))]
'''


def self_check() -> Tuple[int, int]:
    t = ast.parse(CONTROL)
    return len(scan_function(t.body[0], "f", True)) + len(scan_function(t.body[0], "f", False)) + len(scan_function(t.body[2], "pad", False)), len(scan_function(t.body[1], "columns_scale_median_margin", True))


# --------------------------------------------------------------------------- sets turned into sequences (hash-seed dependence)
_SET_METHODS = ("intersection", "union", "difference", "symmetric_difference")


def _is_set_valued(e: ast.AST, set_members) -> bool:
    if isinstance(e, ast.Call):
        f = u(e.func)
        if f in ("set", "frozenset"):
            return True
        if isinstance(e.func, ast.Attribute) and e.func.attr in _SET_METHODS:
            return True
    if isinstance(e, (ast.Set, ast.SetComp)):
        return True
    if isinstance(e, ast.Attribute) and isinstance(e.value, ast.Name) and e.value.id in ("self", "cls") and e.attr in set_members:
        return True
    if isinstance(e, ast.BinOp) and isinstance(e.op, (ast.BitAnd, ast.BitOr, ast.Sub)) and (_is_set_valued(e.left, set_members) or _is_set_valued(e.right, set_members)):
        return True
    return False


def set_order_uses(fn: ast.AST, set_members=frozenset()) -> List[Tuple[int, str]]:
    """A set (frozenset) has no reproducible order: strings and enum members hash differently in every interpreter process
    (PYTHONHASHSEED).  Turning one into a tuple / list, joining it, indexing the result or iterating it to BUILD a sequence
    makes the outcome depend on the process.  sorted(..) and membership / truth / len uses are fine."""
    out = []
    for n in ast.walk(fn):
        if isinstance(n, ast.Call):
            f = u(n.func)
            if f in ("tuple", "list", "np.array", "np.fromiter", "next", "iter", "enumerate") and n.args and _is_set_valued(n.args[0], set_members):
                out.append((n.lineno, u(n)[:90]))
            if isinstance(n.func, ast.Attribute) and n.func.attr == "join" and n.args and _is_set_valued(n.args[0], set_members):
                out.append((n.lineno, u(n)[:90]))
        if isinstance(n, (ast.ListComp, ast.GeneratorExp)) and _is_set_valued(n.generators[0].iter, set_members):
            # a generator consumed by any()/all()/sum()/set()/frozenset()/sorted()/min()/max() does not expose the order
            out.append((n.lineno, "comprehension over " + u(n.generators[0].iter)[:70]))
    return out


SET_ORDER_CONTROL = '''
def _available_numeric_measures(self):
    return tuple(self.available_measures.intersection(CUBE_MEASURE.NUMERIC_CUBE_MEASURES()))

def ok(self):
    if self.available_measures.intersection(NUMERIC):
        return tuple(sorted(self.available_measures.intersection(NUMERIC)))
    return tuple(m for m in CUBE_MEASURE if m in self.available_measures)
'''


def set_order_self_check() -> Tuple[int, int]:
    t = ast.parse(SET_ORDER_CONTROL)
    return len(set_order_uses(t.body[0])), len(set_order_uses(t.body[1]))
