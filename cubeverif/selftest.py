"""SELFTEST runner: apply each corpus variant to a scratch copy of the source tree and run the
property's rules on it (CUBEVERIF_SELFTEST=1: no evidence is written).  Used by the thorough tier
to report `fired x/y`, `silent z/z`; it never decides the property."""
from __future__ import annotations

import concurrent.futures
import os
import shutil
import subprocess
import sys
import tempfile
from typing import Dict, List, Optional, Tuple

from .selftest_corpus import V

VERIF_ROOT = os.path.dirname(os.path.dirname(os.path.abspath(__file__)))

# whether the pinned suite notices each breaking variant (measured once by tools/measure_corpus.py)
try:
    import json as _json

    _SUITE = _json.load(open(os.path.join(os.path.dirname(os.path.abspath(__file__)), "selftest_suite_results.json")))
    for _v in V:
        if _v["id"] in _SUITE:
            _v["suite"] = _SUITE[_v["id"]].get("suite_notices")
except Exception:  # pragma: no cover
    pass


def apply_variant(repo_root: str, v: Dict, dst_root: str) -> Optional[str]:
    """Copy src/ to dst_root and apply the edit; returns None if applied, else the skip reason."""
    rel = os.path.join("src", "cr", "cube", v["file"])
    src_path = os.path.join(repo_root, rel)
    if not os.path.exists(src_path):
        return "file absent"
    text = open(src_path, encoding="utf-8").read()
    start = 0
    if v.get("after"):
        if v["after"] not in text:
            return "anchor snippet absent"
        start = text.index(v["after"])
        if v["old"] not in text[start:]:
            return "snippet absent after anchor"
        i = text.index(v["old"], start)
    else:
        if text.count(v["old"]) != 1:
            return f"snippet occurs {text.count(v['old'])} times"
        i = text.index(v["old"])
    new_text = text[:i] + v["new"] + text[i + len(v["old"]):]
    shutil.copytree(os.path.join(repo_root, "src"), os.path.join(dst_root, "src"))
    with open(os.path.join(dst_root, rel), "w", encoding="utf-8") as fh:
        fh.write(new_text)
    return None


def run_variant(args: Tuple[str, Dict, str]) -> Dict:
    repo_root, v, prop = args
    tmp = tempfile.mkdtemp(prefix="cubeverif_st_")
    try:
        skip = apply_variant(repo_root, v, tmp)
        if skip:
            return {"id": v["id"], "prop": prop, "kind": v["kind"], "status": "skipped", "why": skip}
        try:
            compile(open(os.path.join(tmp, "src", "cr", "cube", v["file"])).read(), v["file"], "exec")
        except SyntaxError as e:
            return {"id": v["id"], "prop": prop, "kind": v["kind"], "status": "skipped", "why": f"variant does not compile: {e}"}
        env = dict(os.environ, CUBEVERIF_SELFTEST="1")
        p = subprocess.run([sys.executable, "-m", "cubeverif.cli", prop, "quick", "--repo", tmp], cwd=VERIF_ROOT, env=env, capture_output=True, text=True, timeout=300)
        fired = [l for l in p.stdout.splitlines() if l.startswith("FINDING")]
        status = {0: "silent", 1: "fired", 2: "analysis-error"}.get(p.returncode, f"rc{p.returncode}")
        return {"id": v["id"], "prop": prop, "kind": v["kind"], "status": status, "rules": sorted({f.split()[1] for f in fired})[:4], "suite_notices": v.get("suite")}
    finally:
        shutil.rmtree(tmp, ignore_errors=True)


def run_seeded(args: Tuple[str, str, str]) -> Dict:
    """Apply an independently written breaking change (/verif/seeded/<id>/patch.diff) to a scratch copy."""
    repo_root, sid, prop = args
    tmp = tempfile.mkdtemp(prefix="cubeverif_seed_")
    try:
        shutil.copytree(os.path.join(repo_root, "src"), os.path.join(tmp, "src"))
        patch = os.path.join(VERIF_ROOT, "seeded", sid, "patch.diff")
        p = subprocess.run(["git", "apply", "--unsafe-paths", "-p1", patch], cwd=tmp, capture_output=True, text=True)
        if p.returncode != 0:
            return {"id": "seeded/" + sid, "prop": prop, "kind": "B", "status": "skipped", "why": "patch does not apply to the current tree"}
        env = dict(os.environ, CUBEVERIF_SELFTEST="1")
        p = subprocess.run([sys.executable, "-m", "cubeverif.cli", prop, "quick", "--repo", tmp], cwd=VERIF_ROOT, env=env, capture_output=True, text=True, timeout=300)
        fired = [l for l in p.stdout.splitlines() if l.startswith("FINDING")]
        status = {0: "silent", 1: "fired", 2: "analysis-error"}.get(p.returncode, f"rc{p.returncode}")
        return {"id": "seeded/" + sid, "prop": prop, "kind": "B", "status": status, "rules": sorted({f.split()[1] for f in fired})[:4], "suite_notices": False}
    finally:
        shutil.rmtree(tmp, ignore_errors=True)


def run_neutral_patch(args: Tuple[str, str, str]) -> Dict:
    """Apply an independently written BEHAVIOUR-PRESERVING edit (/verif/neutral/<id>/neutral_k.diff) to a scratch copy:
    the property's rules must stay silent (exit 0)."""
    repo_root, rel, prop = args
    tmp = tempfile.mkdtemp(prefix="cubeverif_neu_")
    try:
        shutil.copytree(os.path.join(repo_root, "src"), os.path.join(tmp, "src"))
        patch = os.path.join(VERIF_ROOT, "neutral", rel)
        p = subprocess.run(["git", "apply", "--unsafe-paths", "-p1", patch], cwd=tmp, capture_output=True, text=True)
        if p.returncode != 0:
            return {"id": "neutral/" + rel, "prop": prop, "kind": "N", "status": "skipped", "why": "patch does not apply to the current tree"}
        env = dict(os.environ, CUBEVERIF_SELFTEST="1")
        p = subprocess.run([sys.executable, "-m", "cubeverif.cli", prop, "quick", "--repo", tmp], cwd=VERIF_ROOT, env=env, capture_output=True, text=True, timeout=300)
        status = {0: "silent", 1: "fired", 2: "analysis-error"}.get(p.returncode, f"rc{p.returncode}")
        und = sum(1 for l in p.stdout.splitlines() if l.startswith("UNDECIDED"))
        return {"id": "neutral/" + rel, "prop": prop, "kind": "N", "status": status, "undecided": und}
    finally:
        shutil.rmtree(tmp, ignore_errors=True)


TRANSFORMS = ("unparse_round_trip", "alpha_rename_reverse_methods", "return_temps_flip_if", "rename_private_params", "flip_comparisons_swap_products", "positional_to_keyword_args")


def run_transform(args: Tuple[str, str, str]) -> Dict:
    """A WHOLE-PACKAGE behaviour-preserving rewrite (tools/transforms/<name>.py, see DESIGN 8.7) of a scratch copy: every local
    renamed, every return through a temporary, every comparison flipped ...  The property's rules must stay silent."""
    repo_root, name, prop = args
    tmp = tempfile.mkdtemp(prefix="cubeverif_tr_")
    rid = "transform/" + name
    try:
        shutil.copytree(os.path.join(repo_root, "src"), os.path.join(tmp, "src"))
        if name == "unparse_round_trip":
            code = "import ast, pathlib\nfor p in pathlib.Path('src/cr/cube').rglob('*.py'):\n    p.write_text(ast.unparse(ast.parse(p.read_text())) + '\\n')\n"
            p = subprocess.run([sys.executable, "-c", code], cwd=tmp, capture_output=True, text=True, timeout=300)
        else:
            script = os.path.join(VERIF_ROOT, "tools", "transforms", name + ".py")
            if not os.path.exists(script):
                return {"id": rid, "prop": prop, "kind": "N", "status": "skipped", "why": "transform script not found"}
            p = subprocess.run([sys.executable, script], cwd=tmp, capture_output=True, text=True, timeout=300)
        if p.returncode != 0:
            return {"id": rid, "prop": prop, "kind": "N", "status": "skipped", "why": "transform failed: " + p.stderr[-120:]}
        env = dict(os.environ, CUBEVERIF_SELFTEST="1")
        p = subprocess.run([sys.executable, "-m", "cubeverif.cli", prop, "quick", "--repo", tmp], cwd=VERIF_ROOT, env=env, capture_output=True, text=True, timeout=300)
        status = {0: "silent", 1: "fired", 2: "analysis-error"}.get(p.returncode, f"rc{p.returncode}")
        und = sum(1 for l in p.stdout.splitlines() if l.startswith("UNDECIDED"))
        return {"id": rid, "prop": prop, "kind": "N", "status": status, "undecided": und}
    finally:
        shutil.rmtree(tmp, ignore_errors=True)


def neutral_for(prop: str) -> List[str]:
    """The five behaviour-preserving edits written for this property's anchors (see DESIGN 8.7)."""
    out = []
    root = os.path.join(VERIF_ROOT, "neutral")
    for sub in sorted(os.listdir(root)) if os.path.isdir(root) else []:
        # <prop>n = round 1, <prop>m = round 2 ("correct versions of refactors that are easy to get wrong")
        if sub[:3] == prop and os.path.isdir(os.path.join(root, sub)):
            out += [os.path.join(sub, f) for f in sorted(os.listdir(os.path.join(root, sub))) if f.endswith(".diff")]
    return out


def seeded_for(prop: str) -> List[str]:
    d = os.path.join(VERIF_ROOT, "seeded")
    out = []
    if os.path.isdir(d):
        for sid in sorted(os.listdir(d)):
            meta = os.path.join(d, sid, "meta.json")
            try:
                import json

                m = json.load(open(meta))
            except Exception:
                continue
            if m.get("breaks_property") == prop:
                out.append(sid)
    return out


def run_for_property(repo_root: str, prop: str, workers: int = 16) -> Dict:
    jobs = []
    for v in V:
        if v["kind"] == "B" and v["prop"] == prop:
            jobs.append((repo_root, v, prop))
        elif v["kind"] == "N" and prop in v["prop"]:
            jobs.append((repo_root, v, prop))
    results: List[Dict] = []
    with concurrent.futures.ThreadPoolExecutor(max_workers=workers) as ex:
        for r in ex.map(run_variant, jobs):
            results.append(r)
        for r in ex.map(run_seeded, [(repo_root, sid, prop) for sid in seeded_for(prop)]):
            results.append(r)
        for r in ex.map(run_neutral_patch, [(repo_root, rel, prop) for rel in neutral_for(prop)]):
            results.append(r)
        for r in ex.map(run_transform, [(repo_root, name, prop) for name in TRANSFORMS]):
            results.append(r)
    b = [r for r in results if r["kind"] == "B" and r["status"] != "skipped"]
    n = [r for r in results if r["kind"] == "N" and r["status"] != "skipped"]
    return {
        "breaking_fired": sum(1 for r in b if r["status"] == "fired"),
        "breaking_total": len(b),
        "breaking_missed": [r["id"] for r in b if r["status"] != "fired"],
        "neutral_silent": sum(1 for r in n if r["status"] == "silent"),
        "neutral_total": len(n),
        "neutral_alarmed": [r["id"] for r in n if r["status"] != "silent"],
        "skipped": [(r["id"], r["why"]) for r in results if r["status"] == "skipped"],
        "results": results,
    }


if __name__ == "__main__":
    import json

    root = sys.argv[2] if len(sys.argv) > 2 else "/repo"
    props = [sys.argv[1]] if len(sys.argv) > 1 and sys.argv[1] != "all" else [f"C{i:02d}" for i in range(1, 21)]
    for p in props:
        r = run_for_property(root, p)
        print(p, f"fired {r['breaking_fired']}/{r['breaking_total']} missed={r['breaking_missed']} silent {r['neutral_silent']}/{r['neutral_total']} alarmed={r['neutral_alarmed']} skipped={r['skipped']}")
