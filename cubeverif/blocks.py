"""BLOCKS - extraction of the 2x2 (matrix) / 1x2 (marginal, stripe) block templates.

For a measure class the template T(i,j) is the expression computing block (i,j) in
terms of input blocks ``<measure>.blocks[a][b]`` and cube-measure arrays, after local
expansion of ``self.<lazyproperty>`` through the MRO.  A class may implement ``blocks``
directly (nested list), through ``_base_values/_subtotal_columns/_subtotal_rows/
_intersections`` or by delegating to ``<Subtotals>.blocks(base, dims, flags)``.
"""
from __future__ import annotations

import ast
import copy
from dataclasses import dataclass
from typing import Callable, Dict, List, Optional, Tuple

from .loader import ClassInfo, Repo
from .symex import attr_chain, dotted, expand, strip_ifexp_paths, u

POS_NAME = {(0, 0): "_base_values", (0, 1): "_subtotal_columns", (1, 0): "_subtotal_rows", (1, 1): "_intersections"}


@dataclass
class Delegated:
    helper: str  # SumSubtotals / NanSubtotals ...
    method: str  # blocks
    base: ast.expr
    args: List[ast.expr]
    kwargs: Dict[str, ast.expr]
    call: ast.Call


def as_delegation(e: ast.expr) -> Optional[Delegated]:
    if isinstance(e, ast.Call) and isinstance(e.func, ast.Attribute) and isinstance(e.func.value, ast.Name):
        helper = e.func.value.id
        if helper.endswith("Subtotals") or helper.endswith("Subtotal"):
            return Delegated(
                helper,
                e.func.attr,
                e.args[0] if e.args else None,
                list(e.args[1:]),
                {k.arg: k.value for k in e.keywords if k.arg},
                e,
            )
    return None


def matrix_templates(repo: Repo, ci: ClassInfo, stop=None):
    """-> ('grid', [[e00,e01],[e10,e11]], guards) | ('delegated', Delegated, guards) | ('other', expr, guards)

    `guards` are the leading raise-guards (``if not self.is_defined: raise``) stripped
    from the value.
    """
    e = expand(repo, ci, "blocks", stop=stop)
    guards = []
    # strip leading "raise if not defined" guards
    while isinstance(e, ast.IfExp):
        if _is_raise(e.body):
            guards.append((e.test, True))
            e = e.orelse
        elif _is_raise(e.orelse):
            guards.append((e.test, False))
            e = e.body
        else:
            break
    d = as_delegation(e)
    if d is not None and d.method == "blocks":
        return ("delegated", d, guards)
    if isinstance(e, ast.List) and len(e.elts) == 2 and all(isinstance(r, ast.List) and len(r.elts) == 2 for r in e.elts):
        return ("grid", [[e.elts[0].elts[0], e.elts[0].elts[1]], [e.elts[1].elts[0], e.elts[1].elts[1]]], guards)
    return ("other", e, guards)


def vector_templates(repo: Repo, ci: ClassInfo, member: str = "blocks", stop=None):
    """1x2 templates of a marginal (`blocks` list) -> per-orientation dict or single list."""
    e = expand(repo, ci, member, stop=stop)
    return e


def _is_raise(e: ast.expr) -> bool:
    return isinstance(e, ast.Call) and isinstance(e.func, ast.Name) and e.func.id == "__raise__"


class BlockRef:
    """`<chain>.blocks[i][j]` occurrences inside an expression."""

    def __init__(self, chain: str, i: int, j: Optional[int], node: ast.Subscript):
        self.chain, self.i, self.j, self.node = chain, i, j, node

    def __repr__(self):
        return f"{self.chain}[{self.i}]" + (f"[{self.j}]" if self.j is not None else "")


def _const_int(e: ast.expr) -> Optional[int]:
    if isinstance(e, ast.Constant) and isinstance(e.value, int) and not isinstance(e.value, bool):
        return e.value
    return None


def block_refs(e: ast.AST, two_d: bool = True) -> List[BlockRef]:
    """All `X.blocks[i][j]` (2-D) or `X.blocks[i]` (1-D) references with constant indices.

    Also matches references through a name bound to a blocks list that SYMEX inlined,
    i.e. any Subscript(Subscript(<expr ending in .blocks or a blocks-call>, i), j).
    """
    out: List[BlockRef] = []
    seen = set()
    for n in ast.walk(e):
        if not isinstance(n, ast.Subscript):
            continue
        if two_d:
            j = _const_int(n.slice)
            if j is None or not isinstance(n.value, ast.Subscript):
                continue
            i = _const_int(n.value.slice)
            if i is None:
                continue
            base = n.value.value
            if _is_blocks_expr(base) and id(n) not in seen:
                seen.add(id(n))
                out.append(BlockRef(u(base), i, j, n))
        else:
            i = _const_int(n.slice)
            if i is None:
                continue
            base = n.value
            if _is_blocks_expr(base):
                out.append(BlockRef(u(base), i, None, n))
    return out


def _is_blocks_expr(base: ast.expr) -> bool:
    if isinstance(base, ast.Attribute) and base.attr in ("blocks", "_blocks"):
        return True
    d = as_delegation(base)
    if d is not None and d.method == "blocks":
        return True
    # fields holding block lists passed to a constructor
    if isinstance(base, ast.Attribute) and base.attr in ("_proportions", "_count_total"):
        return True
    return False


def subst_indices(e: ast.expr, i: int, j: int) -> str:
    """Text of `e` with every block index pair replaced by the placeholders (I,J) relative
    to (i,j): own index -> I/J, other constants kept.  Used for the uniformity rule."""
    e2 = copy.deepcopy(e)
    for ref in block_refs(e2):
        n = ref.node
        n.slice = ast.Name(id="J" if ref.j == j else f"c{ref.j}", ctx=ast.Load())
        n.value.slice = ast.Name(id="I" if ref.i == i else f"c{ref.i}", ctx=ast.Load())
    return u(e2)
