"""Comparison of a derived expression with the accepted spellings of a specified one.

Policy (false-alarm discipline):
* identical after canonicalisation                      -> held
* same tree SHAPE as an accepted spelling but different leaf tokens (a name, an
  attribute, a constant, an operator, a block index)     -> violated: a token was
  substituted (this is what a slip / copy-paste does; a behaviour preserving refactor
  changes the shape, introduces or removes temporaries - already normalised away by
  SYMEX - or reorders commutative operands, which canonicalisation absorbs)
* different shape from every accepted spelling           -> undecided (never an alarm)
"""
from __future__ import annotations

import ast
import copy
from typing import Dict, List, Optional, Sequence, Tuple

from .symex import u

_COMMUTATIVE_BIN = (ast.Mult, ast.BitAnd, ast.BitOr)  # `+` is list concatenation in this code base: order matters
_FLIP = {ast.Gt: ast.Lt, ast.GtE: ast.LtE}


class _Canon(ast.NodeTransformer):
    def visit_Compare(self, node: ast.Compare):
        self.generic_visit(node)
        if len(node.ops) == 1:
            op = node.ops[0]
            if type(op) in _FLIP:
                return ast.Compare(left=node.comparators[0], ops=[_FLIP[type(op)]()], comparators=[node.left])
            if isinstance(op, (ast.Eq, ast.NotEq)):
                a, b = node.left, node.comparators[0]
                if u(a) > u(b):
                    return ast.Compare(left=b, ops=[op], comparators=[a])
        return node

    def visit_BinOp(self, node: ast.BinOp):
        self.generic_visit(node)
        if isinstance(node.op, _COMMUTATIVE_BIN) and u(node.left) > u(node.right):
            return ast.BinOp(left=node.right, op=node.op, right=node.left)
        return node

    def visit_BoolOp(self, node: ast.BoolOp):
        self.generic_visit(node)
        # flatten (a or b) or c; `and` / `or` of side-effect free tests: operand order is immaterial for the value
        flat = []
        for v in node.values:
            if isinstance(v, ast.BoolOp) and type(v.op) is type(node.op):
                flat += v.values
            else:
                flat.append(v)
        node.values = sorted(flat, key=u)
        return node

    def visit_UnaryOp(self, node: ast.UnaryOp):
        self.generic_visit(node)
        # fold negative literals: -1 is a constant, not an expression
        if isinstance(node.op, ast.USub) and isinstance(node.operand, ast.Constant) and isinstance(node.operand.value, (int, float)) and not isinstance(node.operand.value, bool):
            return ast.Constant(value=-node.operand.value)
        # not (a == b) -> a != b ; not (a is None) -> a is not None
        if isinstance(node.op, ast.Not) and isinstance(node.operand, ast.Compare) and len(node.operand.ops) == 1:
            inv = {ast.Eq: ast.NotEq, ast.NotEq: ast.Eq, ast.Is: ast.IsNot, ast.IsNot: ast.Is, ast.In: ast.NotIn, ast.NotIn: ast.In,
                   ast.Lt: ast.GtE, ast.GtE: ast.Lt, ast.Gt: ast.LtE, ast.LtE: ast.Gt}
            op = node.operand.ops[0]
            if type(op) in inv:
                return self.visit(ast.Compare(left=node.operand.left, ops=[inv[type(op)]()], comparators=node.operand.comparators))
        return node

    def visit_IfExp(self, node: ast.IfExp):
        self.generic_visit(node)
        # `a if not t else b` -> `b if t else a`
        if isinstance(node.test, ast.UnaryOp) and isinstance(node.test.op, ast.Not):
            node = ast.IfExp(test=node.test.operand, body=node.orelse, orelse=node.body)
        # boolean-valued conditionals: `True if t else b` -> `t or b`; `False if t else b` -> `not t and b`;
        # `b if t else False` -> `t and b`; `b if t else True` -> `not t or b`
        def is_const(x, v):
            return isinstance(x, ast.Constant) and x.value is v

        if is_const(node.body, True):
            return self.visit(ast.BoolOp(op=ast.Or(), values=[node.test, node.orelse]))
        if is_const(node.orelse, False) and not is_const(node.body, False):
            return self.visit(ast.BoolOp(op=ast.And(), values=[node.test, node.body]))
        if is_const(node.body, False):
            return self.visit(ast.BoolOp(op=ast.And(), values=[self.visit(ast.UnaryOp(op=ast.Not(), operand=node.test)), node.orelse]))
        if is_const(node.orelse, True):
            return self.visit(ast.BoolOp(op=ast.Or(), values=[self.visit(ast.UnaryOp(op=ast.Not(), operand=node.test)), node.body]))
        return node

    def visit_Call(self, node: ast.Call):
        self.generic_visit(node)
        node.keywords = sorted(node.keywords, key=lambda k: k.arg or "")
        # the argument of a set constructor is unordered: frozenset(a + b) == frozenset(b + a)
        if u(node.func) in ("frozenset", "set") and len(node.args) == 1 and isinstance(node.args[0], ast.BinOp) and isinstance(node.args[0].op, ast.Add):
            b = node.args[0]
            if u(b.left) > u(b.right):
                node.args[0] = ast.BinOp(left=b.right, op=b.op, right=b.left)
        # pow(x, 2) / np.power(x, 2) -> x ** 2 ; np.abs -> abs
        f = u(node.func)
        if f in ("pow", "np.power") and len(node.args) == 2 and not node.keywords:
            return ast.BinOp(left=node.args[0], op=ast.Pow(), right=node.args[1])
        if f == "np.abs":
            node.func = ast.Name(id="abs", ctx=ast.Load())
        # equivalent numpy spellings: np.where(c) (one argument) == np.nonzero(c); np.flatnonzero(c) == np.nonzero(c)[0];
        # np.sum(x, ..) == x.sum(..) is left alone (x may not be an ndarray)
        if f == "np.where" and len(node.args) == 1 and not node.keywords:
            node.func = parse("np.nonzero")
        if f == "np.flatnonzero" and len(node.args) == 1 and not node.keywords:
            return ast.Subscript(value=ast.Call(func=parse("np.nonzero"), args=node.args, keywords=[]), slice=ast.Constant(value=0), ctx=ast.Load())
        if f in ("np.true_divide",) and len(node.args) == 2 and not node.keywords:
            return ast.BinOp(left=node.args[0], op=ast.Div(), right=node.args[1])
        return node


class _Alpha(ast.NodeTransformer):
    """Bound variables (comprehension targets, lambda parameters) renamed to their binding DEPTH: `[d.shape for d in D]`
    and `[dim.shape for dim in D]` are the same expression.  Free names are left alone."""

    def __init__(self):
        self.env: Dict[str, str] = {}
        self.depth = 0

    def visit_Name(self, node: ast.Name):
        if node.id in self.env:
            return ast.copy_location(ast.Name(id=self.env[node.id], ctx=node.ctx), node)
        return node

    def _bind(self, target: ast.AST):
        for n in ast.walk(target):
            if isinstance(n, ast.Name):
                self.env[n.id] = f"_b{self.depth}"
                self.depth += 1

    def _comp(self, node, fields):
        saved_env, saved_depth = dict(self.env), self.depth
        gens = []
        for g in node.generators:
            it = self.visit(g.iter)  # evaluated before its own target is bound
            self._bind(g.target)
            gens.append(ast.comprehension(target=self.visit(g.target), iter=it, ifs=[self.visit(c) for c in g.ifs], is_async=g.is_async))
        node.generators = gens
        for f in fields:
            setattr(node, f, self.visit(getattr(node, f)))
        self.env, self.depth = saved_env, saved_depth
        return node

    def visit_ListComp(self, node):
        return self._comp(node, ("elt",))

    visit_SetComp = visit_GeneratorExp = visit_ListComp

    def visit_DictComp(self, node):
        return self._comp(node, ("key", "value"))

    def visit_Lambda(self, node: ast.Lambda):
        saved_env, saved_depth = dict(self.env), self.depth
        a = node.args
        for d in a.defaults + [k for k in a.kw_defaults if k is not None]:
            self.visit(d)
        for x in a.posonlyargs + a.args + a.kwonlyargs + [v for v in (a.vararg, a.kwarg) if v]:
            self.env[x.arg] = x.arg = f"_b{self.depth}"
            self.depth += 1
        node.body = self.visit(node.body)
        self.env, self.depth = saved_env, saved_depth
        return node


def alpha(e: ast.expr) -> ast.expr:
    return _Alpha().visit(copy.deepcopy(e))


def canon(e: ast.expr) -> ast.expr:
    return _Canon().visit(alpha(e))


def parse(text: str) -> ast.expr:
    return ast.parse(text, mode="eval").body


def _tok(n: ast.AST) -> Optional[str]:
    if isinstance(n, ast.Name):
        return n.id
    if isinstance(n, ast.Attribute):
        return "." + n.attr
    if isinstance(n, ast.Constant):
        return repr(n.value)
    if isinstance(n, ast.keyword):
        return "kw:" + str(n.arg)
    if isinstance(n, (ast.operator, ast.cmpop, ast.unaryop, ast.boolop)):
        return type(n).__name__
    return None


def shape_diff(a: ast.AST, b: ast.AST, path: str = "", _mirrored: bool = False) -> Optional[List[Tuple[str, str, str]]]:
    """None if the trees have different shapes, else the list of differing leaf tokens."""
    if isinstance(a, (ast.operator, ast.cmpop, ast.unaryop, ast.boolop)) and isinstance(
        b, (ast.operator, ast.cmpop, ast.unaryop, ast.boolop)
    ):
        return [] if type(a) is type(b) else [(path, type(a).__name__, type(b).__name__)]
    # leaves of different kinds (a name where a constant is specified) are a token substitution
    if isinstance(a, (ast.Name, ast.Constant)) and isinstance(b, (ast.Name, ast.Constant)) and type(a) is not type(b):
        return [(path, str(_tok(a)), str(_tok(b)))]
    # slices are compared as a whole: [-2:] vs [:2]
    if isinstance(a, ast.Slice) and isinstance(b, ast.Slice):
        ta, tb = u(ast.Subscript(value=ast.Name(id="_", ctx=ast.Load()), slice=a, ctx=ast.Load())), u(ast.Subscript(value=ast.Name(id="_", ctx=ast.Load()), slice=b, ctx=ast.Load()))
        return [] if ta == tb else [(path, ta[1:], tb[1:])]
    # a dropped / added negation: `x` where `not x` is specified
    if isinstance(a, ast.UnaryOp) and isinstance(a.op, ast.Not) and not (isinstance(b, ast.UnaryOp) and isinstance(b.op, ast.Not)):
        d = shape_diff(a.operand, b, path)
        if d is not None and not d:
            return [(path, "not " + u(a.operand)[:40], u(b)[:40])]
    if isinstance(b, ast.UnaryOp) and isinstance(b.op, ast.Not) and not (isinstance(a, ast.UnaryOp) and isinstance(a.op, ast.Not)):
        d = shape_diff(a, b.operand, path)
        if d is not None and not d:
            return [(path, u(a)[:40], "not " + u(b.operand)[:40])]
    if type(a) is not type(b):
        return None
    if isinstance(a, ast.Compare) and len(a.ops) == 1 and len(b.ops) == 1 and not _mirrored:
        direct = shape_diff(a, b, path, True)
        if direct is not None:
            return direct
        flip = {ast.Lt: ast.Gt, ast.Gt: ast.Lt, ast.LtE: ast.GtE, ast.GtE: ast.LtE, ast.Eq: ast.Eq, ast.NotEq: ast.NotEq}
        if type(a.ops[0]) in flip:
            am = ast.Compare(left=a.comparators[0], ops=[flip[type(a.ops[0])]()], comparators=[a.left])
            return shape_diff(am, b, path, True)
        return None
    out: List[Tuple[str, str, str]] = []
    ta, tb = _tok(a), _tok(b)
    if ta != tb:
        out.append((path + ("#name" if isinstance(a, ast.Name) and isinstance(b, ast.Name) else ""), str(ta), str(tb)))
    fa = [(f, getattr(a, f, None)) for f in a._fields if f not in ("ctx", "id", "attr", "value") or f == "value" and not isinstance(a, ast.Constant)]
    for f, va in fa:
        vb = getattr(b, f, None)
        if isinstance(va, list):
            if not isinstance(vb, list) or len(va) != len(vb):
                return None
            for i, (x, y) in enumerate(zip(va, vb)):
                if isinstance(x, ast.AST) and isinstance(y, ast.AST):
                    d = shape_diff(x, y, f"{path}/{f}[{i}]")
                    if d is None:
                        return None
                    out += d
                elif x != y:
                    out.append((f"{path}/{f}[{i}]", str(x), str(y)))
        elif isinstance(va, ast.AST):
            if not isinstance(vb, ast.AST):
                return None
            d = shape_diff(va, vb, f"{path}/{f}")
            if d is None:
                return None
            out += d
        elif va != vb:
            if va is None or vb is None:
                return None
            out.append((f"{path}/{f}", str(va), str(vb)))
    return out


# names bound in the function(s) under analysis (set by the rule / by Ctx.check_expr): lets a LOCAL that was renamed
# consistently be told from a local that was substituted by another one.  None: unknown (no renaming is assumed).
SCOPE: Optional[set] = None


class ScopeSet(set):
    """All bare names of the function(s) under analysis; `.bound`: those BOUND there (parameters, assignment / loop /
    comprehension targets) - only these can be "renamed locals" (a class, an exception, a module constant cannot)."""

    bound: Optional[set] = None

    @classmethod
    def of(cls, fns) -> "ScopeSet":
        out = cls()
        out.bound = set()
        for fn in fns:
            for n in ast.walk(fn):
                if isinstance(n, ast.Name):
                    out.add(n.id)
                    if isinstance(n.ctx, ast.Store):
                        out.bound.add(n.id)
                elif isinstance(n, ast.arg):
                    out.add(n.arg)
                    out.bound.add(n.arg)
        return out


class scope:
    """with exprdiff.scope(names): ...  - the names of the function(s) the compared expressions come from."""

    def __init__(self, names):
        self.names = names if names is None or isinstance(names, ScopeSet) else ScopeSet(names)

    def __enter__(self):
        global SCOPE
        self.saved, SCOPE = SCOPE, self.names
        return self

    def __exit__(self, *a):
        global SCOPE
        SCOPE = self.saved
        return False


def is_local_renaming(diffs) -> bool:
    """Every difference is a bare name for a bare name, the mapping is one-to-one, the specified names no longer occur in
    the function(s) under analysis and the derived ones do: the local was RENAMED (`idx` -> `cube_idx` everywhere),
    which no behaviour depends on.  A substitution (`i` where `idx` is specified, `idx` still bound) is not."""
    if SCOPE is None or not diffs:
        return False
    fwd: Dict[str, str] = {}
    bwd: Dict[str, str] = {}
    for p, got, spec in diffs:
        if not p.endswith("#name"):
            return False
        if fwd.setdefault(spec, got) != got or bwd.setdefault(got, spec) != spec:
            return False
        if spec in SCOPE or got not in SCOPE or (SCOPE.bound is not None and got not in SCOPE.bound):
            return False
    return True


def compare(derived: ast.expr, accepted: Sequence[str]) -> Tuple[Optional[bool], str]:
    """-> (True, '') held | (False, detail) token substitution | (None, why) undecided."""
    d = canon(derived)
    dt = u(d)
    best: Optional[List[Tuple[str, str, str]]] = None
    for text in accepted:
        a = canon(parse(text))
        if u(a) == dt:
            return True, ""
        diff = shape_diff(d, a)
        if diff is not None and (best is None or len(diff) < len(best)):
            best = diff
    if best is not None and best and is_local_renaming(best):
        return True, ""
    if best is not None and best:
        toks = "; ".join(f"{x} where {y} is specified" for _p, x, y in best[:6])
        return False, "token(s) substituted: " + toks
    if best is not None and not best:
        return True, ""
    return None, "expression has a different shape from every accepted spelling"


def best_substitutions(derived: ast.expr, accepted: Sequence[str]) -> Optional[List[Tuple[str, str, str]]]:
    """The shortest list of (path, derived token, specified token) over the accepted spellings (None: shapes differ)."""
    d = canon(derived)
    best = None
    for text in accepted:
        diff = shape_diff(d, canon(parse(text)))
        if diff is not None and (best is None or len(diff) < len(best)):
            best = diff
    return best
