"""Rule-run context: obligations, findings, known-findings matching, evidence, CLI glue."""
from __future__ import annotations

import hashlib
import json
import os
import sys
import time
import traceback
from dataclasses import dataclass, field
from typing import Any, Callable, Dict, List, Optional

from .loader import AnalysisError, Repo
from .types import Types

VERIF_ROOT = os.path.dirname(os.path.dirname(os.path.abspath(__file__)))


@dataclass
class Obligation:
    rule: str  # rule id, e.g. "C02.layout"
    construct: str  # "matrix/cubemeasure.py::_MrXCatCubeCounts.row_bases"
    derived: str
    expected: str
    status: str  # held | violated | undecided
    detail: str = ""
    nontrivial: bool = True

    @property
    def key(self) -> str:
        return f"{self.rule}|{self.construct}"

    def as_dict(self) -> Dict[str, Any]:
        return {
            "rule": self.rule,
            "construct": self.construct,
            "derived": self.derived,
            "expected": self.expected,
            "status": self.status,
            "detail": self.detail,
        }


class Ctx:
    """One run of the rules of one property on one tree."""

    def __init__(self, prop: str, tier: str, repo_root: str):
        self.prop = prop
        self.tier = tier
        self.repo_root = repo_root
        self.repo = Repo(repo_root)
        self.types = Types(self.repo)
        self._flow = None
        self.obligations: List[Obligation] = []
        self.notes: List[str] = []
        self.counts: Dict[str, int] = {}
        self.min_counts: Dict[str, int] = {}
        self.not_decided: List[str] = []
        self.assumptions: List[str] = []
        self.trusted: List[str] = []
        self.explanation = ""
        self.rule_text = ""

    # engines ---------------------------------------------------------------
    @property
    def flow(self):
        if self._flow is None:
            from .flow import Flow

            self._flow = Flow(self.repo, self.types)
        return self._flow

    # obligations -------------------------------------------------------------
    def ob(self, rule: str, construct: str, derived: Any, expected: Any, ok: Optional[bool], detail: str = "", nontrivial: bool = True) -> Obligation:
        status = "held" if ok is True else ("violated" if ok is False else "undecided")
        o = Obligation(f"{self.prop}.{rule}", construct, str(derived), str(expected), status, detail, nontrivial)
        self.obligations.append(o)
        return o

    def held(self, rule, construct, derived, expected="", detail=""):
        return self.ob(rule, construct, derived, expected or derived, True, detail)

    def violated(self, rule, construct, derived, expected, detail=""):
        return self.ob(rule, construct, derived, expected, False, detail)

    def undecided(self, rule, construct, why, expected=""):
        return self.ob(rule, construct, why, expected, None, why)

    def check_eq(self, rule, construct, derived, expected, detail=""):
        return self.ob(rule, construct, derived, expected, str(derived) == str(expected), detail)

    def check_expr(self, rule, construct, derived_expr, accepted, detail=""):
        """Compare an expression with accepted spellings (see exprdiff policy)."""
        from .exprdiff import compare
        from .symex import u

        if isinstance(accepted, str):
            accepted = [accepted]
        from . import exprdiff
        from .callnorm import positionalise

        # package-internal calls in one argument form: keyword arguments moved into their positional slots
        try:
            derived_expr = positionalise(self.repo, derived_expr)
        except Exception:
            pass
        # ... the accepted spellings likewise (a rule may spell `format=ORDER_FORMAT.BOGUS_IDS`)
        import ast as _ast

        norm = []
        for a in accepted:
            try:
                norm.append(_ast.unparse(positionalise(self.repo, _ast.parse(a, mode="eval").body)))
            except Exception:
                norm.append(a)
        accepted = norm

        with exprdiff.scope(exprdiff.SCOPE if exprdiff.SCOPE is not None else self.scope_names(construct)):
            ok, why = compare(derived_expr, accepted)
        exp = " | ".join(accepted)
        if ok is True:
            return self.ob(rule, construct, u(derived_expr), exp, True, detail)
        if ok is False:
            # a specified name that no longer occurs ANYWHERE in the package was renamed (a refactor), not substituted:
            # the rule's spelling is stale, which is no evidence about the code
            from .exprdiff import best_substitutions

            subs = best_substitutions(derived_expr, accepted) or []
            # `.X` where `.Y` is specified and one is a PURE ALIAS of the other in the class under analysis
            # (`_dimension -> return self._rows_dimension`): the same member under two names
            if subs and all(self._aliased(construct, got, spec) for _p, got, spec in subs):
                return self.ob(rule, construct, u(derived_expr), exp, True, detail + " (through pure alias properties)")
            names = self._package_names()
            # only ATTRIBUTE tokens ('.name'): operator tokens ('Lt') and constants are never "renamed"
            stale = [spec for _p, _got, spec in subs if isinstance(spec, str) and spec.startswith(".") and spec[1:] not in names and spec[1:].isidentifier()]
            if subs and len(stale) == len(subs):
                return self.ob(rule, construct, u(derived_expr), exp, None, f"the specified name(s) {sorted(set(stale))} no longer occur in the package (renamed): spelling rule not applicable")
            return self.ob(rule, construct, u(derived_expr), exp, False, (detail + " -- " if detail else "") + why)
        return self.ob(rule, construct, u(derived_expr), exp, None, why)

    def scope_names(self, construct: str):
        """Bare names of the member named by `construct` ("file::Class.member ...") and of the private helpers it
        reaches; None when the construct does not name a member."""
        from .stmts import scope_names

        try:
            short, rest = construct.split("::", 1)
            head = rest.split(" ")[0].split("[")[0]
            if "." not in head:  # a module-level function
                import ast as _ast

                fn = self.repo.module(short).functions.get(head)
                if fn is None:
                    return None
                from .exprdiff import ScopeSet

                return ScopeSet.of([fn])
            cname, member = head.split(".")[0], head.split(".")[1]
            ci = self.repo.cls(short, cname)
            if self.repo.lookup(ci, member) is None:
                return None
            return scope_names(self.repo, ci, member)
        except Exception:
            return None

    def scope(self, short: str, cname: str, *members: str):
        """Context manager: atoms compared inside come from these members (see exprdiff.scope)."""
        from . import exprdiff
        from .stmts import scope_names

        from .stmts import reachable_functions

        ci = self.repo.cls(short, cname)
        return exprdiff.scope(exprdiff.ScopeSet.of([fn for m in members for fn in reachable_functions(self.repo, ci, m, 3)]))

    def _aliased(self, construct: str, got, spec) -> bool:
        from .symex import Expander

        if not (isinstance(got, str) and isinstance(spec, str) and got.startswith(".") and spec.startswith(".")):
            return False
        try:
            short, rest = construct.split("::", 1)
            cname = rest.split(".")[0].split(" ")[0]
            ci = self.repo.cls(short, cname)
        except Exception:
            return False

        def resolve(name):
            seen = set()
            while name not in seen:
                seen.add(name)
                m = self.repo.lookup(ci, name)
                if m is None or m.kind not in ("lazyproperty", "property"):
                    break
                nxt = Expander._pure_alias(m)
                if nxt is None:
                    break
                name = nxt
            return name

        # every class of the module that derives from ci may carry the alias (mixins parameterised by subclasses)
        a, b = got[1:], spec[1:]
        if resolve(a) == resolve(b):
            return True
        # a renamed INSTANCE FIELD: the specified field is not assigned anywhere in the class any more, and the derived one
        # stores, in __init__, the constructor parameter the specified field is named after (`self._strand_idx = slice_idx`
        # where `self._slice_idx` is specified): the same datum under a new private name
        import ast as _ast

        stores = {}
        for c in ci.mro or [ci]:
            init = c.members.get("__init__")
            if init is None:
                continue
            for n in _ast.walk(init.node):
                if isinstance(n, _ast.Assign) and len(n.targets) == 1 and isinstance(n.targets[0], _ast.Attribute) and isinstance(n.targets[0].value, _ast.Name) and n.targets[0].value.id == "self" and isinstance(n.value, _ast.Name):
                    stores.setdefault(n.targets[0].attr, n.value.id)
        if b not in stores and self.repo.lookup(ci, b) is None and stores.get(a) is not None and stores[a] == b.lstrip("_"):
            return True
        for sub in ci.all_subclasses() if hasattr(ci, "all_subclasses") else []:
            ci_saved, ci = ci, sub
            try:
                if resolve(a) == resolve(b):
                    return True
            finally:
                ci = ci_saved
        return False

    def _package_names(self):
        """every identifier (def / class / attribute / name) that occurs in the analysed package"""
        if getattr(self, "_names_cache", None) is None:
            import ast as _ast

            names = set()
            for mod in self.repo.modules.values():
                for n in _ast.walk(mod.tree):
                    if isinstance(n, _ast.Attribute):
                        names.add(n.attr)
                    elif isinstance(n, _ast.Name):
                        names.add(n.id)
                    elif isinstance(n, (_ast.FunctionDef, _ast.ClassDef)):
                        names.add(n.name)
                    elif isinstance(n, _ast.arg):
                        names.add(n.arg)
                    elif isinstance(n, _ast.keyword) and n.arg:
                        names.add(n.arg)
            self._names_cache = names
        return self._names_cache

    def count(self, what: str, n: int = 1, minimum: Optional[int] = None):
        self.counts[what] = self.counts.get(what, 0) + n
        if minimum is not None:
            self.min_counts[what] = minimum

    def require_min(self, what: str, minimum: int):
        self.min_counts[what] = minimum
        self.counts.setdefault(what, 0)

    def note(self, text: str):
        self.notes.append(text)

    def finish_vacuity(self):
        """Fewer instances than were confirmed by hand on the pinned tree: the rule did not see (all of) the code it
        is about.  That is never a pass and never a violation - the constructs exist (a vanished class / function
        raises AnalysisError where it is looked up) but were written in a form the rule cannot analyse: UNDECIDED,
        printed and recorded, exit code unchanged."""
        for what, minimum in self.min_counts.items():
            got = self.counts.get(what, 0)
            if got < minimum:
                self.undecided("vacuity", what, f"only {got} of at least {minimum} confirmed instances could be analysed (code reshaped into a form the rule does not recognise)", f">= {minimum}")


# --------------------------------------------------------------------------- known findings

def load_known_findings() -> List[Dict[str, Any]]:
    path = os.path.join(VERIF_ROOT, "known_findings.json")
    if not os.path.exists(path):
        return []
    with open(path) as fh:
        data = json.load(fh)
    return data.get("findings", [])


def match_known(o: Obligation, known: List[Dict[str, Any]]) -> Optional[Dict[str, Any]]:
    for k in known:
        if k.get("status") != "known":
            continue  # 'fixed' entries suppress nothing
        if k.get("rule") == o.rule and k.get("construct") == o.construct:
            return k
    return None


# --------------------------------------------------------------------------- running

def run_property(prop: str, tier: str, repo_root: str, rules: Callable[[Ctx], None], replay: Optional[str] = None) -> int:
    t0 = time.time()
    seed = int(os.environ.get("VERIF_SEED", "0") or 0)
    evidence_path = os.path.join(VERIF_ROOT, "evidence", f"{prop}.json")
    os.makedirs(os.path.dirname(evidence_path), exist_ok=True)
    ctx = None
    try:
        ctx = Ctx(prop, tier, repo_root)
        rules(ctx)
        ctx.finish_vacuity()
    except AnalysisError as e:
        # a vanished anchor: the rest of the property could not be analysed.  Violations ALREADY established on positive
        # evidence stand (exit 1 below); without any, the run is analysis-broken (exit 2), never a pass.
        print(f"ANALYSIS-ERROR property={prop} {e}")
        if ctx is None or not any(o.status == "violated" and match_known(o, load_known_findings()) is None for o in ctx.obligations):
            return 2
    except Exception as e:  # checker crash is never a verdict
        traceback.print_exc()
        print(f"ANALYSIS-ERROR property={prop} checker crashed: {type(e).__name__}: {e}")
        return 2

    known = load_known_findings()
    violations: List[Obligation] = []
    known_hits: List[Obligation] = []
    undecided = [o for o in ctx.obligations if o.status == "undecided"]
    for o in ctx.obligations:
        if o.status == "violated":
            k = match_known(o, known)
            if k is not None:
                known_hits.append(o)
                print(f"KNOWN-FINDING: property={prop} {k.get('id','')} {o.construct}: {k.get('what', o.detail)}")
            else:
                violations.append(o)

    if replay:
        return _do_replay(ctx, replay)

    selftest_mode = bool(os.environ.get("CUBEVERIF_SELFTEST"))
    if selftest_mode:
        # variant run of the self-test: report on stdout only, never touch evidence / replay files
        for o in violations:
            print(f"FINDING rule={o.rule} construct={o.construct}")
            print(f"VIOLATION property={prop} replay=-")
        for o in undecided:
            print(f"UNDECIDED property={prop} {o.rule} {o.construct}")
        return 1 if violations else 0
    replay_dir = os.path.join(VERIF_ROOT, "evidence", "replay")
    os.makedirs(replay_dir, exist_ok=True)
    # clean stale replay files of this property
    for f in os.listdir(replay_dir):
        if f.startswith(prop + "-"):
            os.remove(os.path.join(replay_dir, f))
    for i, o in enumerate(violations):
        rp = os.path.join(replay_dir, f"{prop}-{i}.json")
        with open(rp, "w") as fh:
            json.dump({"property": prop, "obligation": o.as_dict(), "key": o.key}, fh, indent=1)
        print(f"FINDING rule={o.rule} construct={o.construct}\n   derived : {o.derived[:400]}\n   expected: {o.expected[:400]}\n   {o.detail[:400]}")
        print(f"VIOLATION property={prop} replay={rp}")
    for o in undecided:
        print(f"UNDECIDED property={prop} {o.rule} {o.construct}: {o.detail or o.derived}")
    for n in ctx.notes:
        print(f"NOTE property={prop} {n}")

    discharged = sum(1 for o in ctx.obligations if o.status == "held")
    distinct = len({o.key for o in ctx.obligations if o.nontrivial and o.status in ("held", "violated")})
    stats = ctx.repo.stats()
    samples = [o.as_dict() for o in ctx.obligations[:4]] + [o.as_dict() for o in ctx.obligations[len(ctx.obligations) // 2 : len(ctx.obligations) // 2 + 3]]
    if violations:
        samples = [o.as_dict() for o in violations[:3]] + samples
    by_rule: Dict[str, int] = {}
    for o in ctx.obligations:
        by_rule[o.rule] = by_rule.get(o.rule, 0) + 1
    evidence = {
        "property_id": prop,
        "tier": tier,
        "seed": seed,
        "level": "other",
        "coverage": {
            "explanation": ctx.explanation
            or "static analysis of the parsed source tree; obligations are rule instances decided on the current tree",
            "obligations": len(ctx.obligations),
            "discharged": discharged,
            "undecided": len(undecided),
            "evaluations": len(ctx.obligations),
            "distinct_nontrivial": distinct,
            "rule": ctx.rule_text
            or "one obligation per (rule, construct); non-trivial = the rule inspected at least one construct of the tree and compared a derived fact with the specified one",
            "samples": samples,
            "obligations_by_rule": by_rule,
            "analysed": {**stats, **ctx.counts, "repo_root": repo_root},
            "instance_minimums": ctx.min_counts,
            "not_decided": ctx.not_decided,
            "known_findings_reported": [o.key for o in known_hits],
            "notes": ctx.notes,
            "trusted_base": ctx.trusted
            or ["CPython ast", "cubeverif symbolic summariser (symex.py)", "spec tables in cubeverif/specs"],
            "checker_cmd": f"./check {prop} {tier}",
            "exhaustive": True,
        },
        "assumptions": ctx.assumptions,
        "wall_s": round(time.time() - t0, 3),
        "violations": len(violations),
    }
    if tier == "thorough":
        # checker validation (never decides the property): variant corpus on scratch copies of the tree
        try:
            from .selftest import run_for_property

            st = run_for_property(repo_root, prop)
            evidence["coverage"]["selftest"] = {
                "what": "each corpus variant is ONE edit applied to a scratch copy of the source tree; breaking variants must make this check fire, neutral (behaviour preserving) variants must leave it silent; it validates the checker and never decides the property",
                "breaking_fired": st["breaking_fired"],
                "breaking_total": st["breaking_total"],
                "breaking_missed": st["breaking_missed"],
                "neutral_silent": st["neutral_silent"],
                "neutral_total": st["neutral_total"],
                "neutral_alarmed": st["neutral_alarmed"],
                "skipped": st["skipped"],
                "per_variant": [{k: r.get(k) for k in ("id", "kind", "status", "rules", "suite_notices")} for r in st["results"]],
            }
            print(
                f"{prop} selftest: breaking fired {st['breaking_fired']}/{st['breaking_total']} (missed {st['breaking_missed']}), "
                f"neutral silent {st['neutral_silent']}/{st['neutral_total']} (alarmed {st['neutral_alarmed']}), skipped {len(st['skipped'])}"
            )
        except Exception as e:  # the self-test must never turn a verdict into an error
            evidence["coverage"]["selftest"] = {"error": f"{type(e).__name__}: {e}"}
    evidence["wall_s"] = round(time.time() - t0, 3)
    with open(evidence_path, "w") as fh:
        json.dump(evidence, fh, indent=1)
    print(
        f"{prop} {tier}: obligations={len(ctx.obligations)} held={discharged} violated={len(violations)} "
        f"known={len(known_hits)} undecided={len(undecided)} "
        f"(modules={stats['modules']} classes={stats['classes']} functions={stats['functions']}) {evidence['wall_s']}s"
    )
    return 1 if violations else 0


def _do_replay(ctx: Ctx, path: str) -> int:
    with open(path) as fh:
        rp = json.load(fh)
    key = rp.get("key")
    hits = [o for o in ctx.obligations if o.key == key]
    if not hits:
        print(f"replay: obligation {key} no longer exists on this tree")
        return 0
    rc = 0
    for o in hits:
        print(f"replay {o.rule} {o.construct}: {o.status}\n   derived : {o.derived}\n   expected: {o.expected}\n   {o.detail}")
        if o.status == "violated":
            print(f"VIOLATION property={ctx.prop} replay={path}")
            rc = 1
    return rc
