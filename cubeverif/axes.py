"""AXIS - axis-role abstract interpreter for the numpy subset used by cr.cube.

An abstract array records, for every *source* axis of the one raw tensor it is
computed from, whether the axis is kept (tied to an output axis), summed
(over which range), or fixed at an index; output axes carry semantic roles
(R, C, Rsel, Csel, S ...).  Broadcasting is typed by role: two operands may
broadcast only if the trailing roles agree or one side is a size-1 / new axis.

The result is a statement of the form
    out[r, c] = SUM_{c'} counts_raw[r, sel=0, c']       for every content/extent
obtained without executing anything.
"""
from __future__ import annotations

import ast
import copy
from dataclasses import dataclass, field, replace
from fractions import Fraction
from typing import Dict, List, Optional, Sequence, Tuple, Union

from .symex import dotted, u


class Top(Exception):
    """Construct outside the supported subset."""


class RoleClash(Exception):
    """Two operands broadcast against each other with different axis roles."""


FULL = "full"


@dataclass(frozen=True)
class SrcOp:
    kind: str  # keep | sum | fix
    out: Optional[int] = None  # for keep: output axis position
    rng: Union[str, Tuple[int, int]] = FULL  # full | (lo,hi) | 'valid'
    idx: Optional[int] = None  # for fix

    def text(self) -> str:
        r = "" if self.rng == FULL else (f"[{self.rng}]" if isinstance(self.rng, str) else f"[{self.rng[0]}:{self.rng[1]}]")
        if self.kind == "keep":
            return "K" + r
        if self.kind == "sum":
            return "Σ" + r
        return f"F{self.idx}"


@dataclass
class AV:
    """Abstract array: output roles + per-source-axis operation."""

    src_name: str
    src_roles: Tuple[str, ...]
    roles: List[str]  # role of each output axis; '1' = size-one axis
    ops: List[SrcOp]  # one per source axis
    mult: List[str] = field(default_factory=list)  # roles of broadcast axes that were summed (multiplicity)
    scalar_ok: bool = True

    def copy(self) -> "AV":
        return AV(self.src_name, self.src_roles, list(self.roles), list(self.ops), list(self.mult))

    @property
    def rank(self) -> int:
        return len(self.roles)

    def tied_src(self, out_pos: int) -> Optional[int]:
        for i, op in enumerate(self.ops):
            if op.kind == "keep" and op.out == out_pos:
                return i
        return None

    def _drop_out(self, pos: int):
        self.roles.pop(pos)
        self.ops = [
            replace(op, out=op.out - 1) if op.kind == "keep" and op.out is not None and op.out > pos else op
            for op in self.ops
        ]

    def _insert_out(self, pos: int, role: str):
        self.roles.insert(pos, role)
        self.ops = [
            replace(op, out=op.out + 1) if op.kind == "keep" and op.out is not None and op.out >= pos else op
            for op in self.ops
        ]

    def normal_form(self, support_only: bool = False, with_src: bool = False) -> str:
        parts = []
        for role, op in zip(self.src_roles, self.ops):
            t = op.text()
            if op.kind == "keep":
                out_role = self.roles[op.out]
                if out_role != role:
                    t += f"->{out_role}"
            parts.append(f"{role}:{t}")
        s = f"out=({','.join(self.roles)}) " + (f"src={self.src_name} " if with_src else "") + " ".join(parts)
        if self.mult and not support_only:
            s += " x|" + ",".join(self.mult) + "|"
        return s


@dataclass
class Ratio:
    num: object
    den: object
    roles: List[str]

    def normal_form(self, support_only=False) -> str:
        return f"({nf(self.num)}) / ({nf(self.den)}) out=({','.join(self.roles)})"


@dataclass
class Shape:
    roles: Tuple[str, ...]


@dataclass
class RoleVal:
    role: str  # an extent, e.g. x.shape[0]


@dataclass
class IntVal:
    value: int


@dataclass
class ValidIdx:
    which: str  # 'rows'


def nf(v, support_only=False) -> str:
    if isinstance(v, (AV, Ratio)):
        return v.normal_form(support_only)
    return repr(v)


def _np_name(e: ast.AST) -> Optional[str]:
    d = dotted(e)
    if d and d.startswith("np."):
        return d[3:]
    return None


class AxisEval:
    def __init__(self, leaves: Dict[str, AV], extra: Optional[Dict[str, object]] = None, hook=None):
        self.leaves = leaves
        self.extra = extra or {}
        self.hook = hook

    # ------------------------------------------------------------------ entry
    def eval(self, e: ast.expr):
        key = u(e)
        if self.hook is not None:
            hv = self.hook(e, self)
            if hv is not None:
                return hv
        if key in self.leaves:
            return self.leaves[key].copy()
        if key in self.extra:
            return copy.deepcopy(self.extra[key])
        if isinstance(e, ast.Constant):
            if isinstance(e.value, bool) or e.value is None:
                raise Top(f"constant {e.value!r}")
            if isinstance(e.value, int):
                return IntVal(e.value)
            raise Top(f"constant {e.value!r}")
        if isinstance(e, ast.UnaryOp) and isinstance(e.op, ast.USub) and isinstance(e.operand, ast.Constant):
            return IntVal(-e.operand.value)
        if isinstance(e, ast.Tuple):
            return tuple(self.eval(x) for x in e.elts)
        if isinstance(e, ast.Attribute):
            if e.attr == "shape":
                v = self.eval(e.value)
                if isinstance(v, (AV, Ratio)):
                    return Shape(tuple(v.roles))
                raise Top("shape of non-array")
            if e.attr == "T":
                v = self.eval(e.value)
                return self._transpose(v)
            raise Top(f"attribute {u(e)}")
        if isinstance(e, ast.Subscript):
            base = self.eval(e.value)
            if isinstance(base, Shape):
                idx = self.eval(e.slice)
                if isinstance(idx, IntVal):
                    return RoleVal(base.roles[idx.value])
                raise Top("shape subscript")
            if isinstance(base, (AV,)):
                return self._subscript(base, e.slice)
            if isinstance(base, Ratio):
                return self._subscript_ratio(base, e.slice)
            raise Top(f"subscript of {type(base).__name__}")
        if isinstance(e, ast.Call):
            return self._call(e)
        if isinstance(e, ast.BinOp):
            if isinstance(e.op, ast.Div):
                a, b = self.eval(e.left), self.eval(e.right)
                return self._ratio(a, b)
            raise Top(f"binop {type(e.op).__name__}")
        raise Top(f"expr {type(e).__name__}: {u(e)[:60]}")

    # ------------------------------------------------------------------ ops
    def _transpose(self, v):
        if isinstance(v, AV) and v.rank == 2:
            w = v.copy()
            w.roles = [v.roles[1], v.roles[0]]
            w.ops = [replace(op, out=1 - op.out) if op.kind == "keep" else op for op in v.ops]
            return w
        raise Top("transpose")

    def _index_items(self, sl: ast.expr) -> List[ast.expr]:
        if isinstance(sl, ast.Tuple):
            return list(sl.elts)
        return [sl]

    def _subscript(self, v: AV, sl: ast.expr) -> AV:
        w = v.copy()
        items = self._index_items(sl)
        pos = 0  # current output axis position
        for it in items:
            if isinstance(it, ast.Constant) and it.value is None:
                w._insert_out(pos, "1")
                pos += 1
                continue
            if isinstance(it, ast.Constant) and it.value is Ellipsis:
                raise Top("ellipsis index")
            if pos >= w.rank:
                raise Top(f"too many indices for rank {v.rank}: {u(sl)}")
            if isinstance(it, ast.Slice):
                if it.step is not None:
                    raise Top("slice step")
                if it.lower is None and it.upper is None:
                    pos += 1
                    continue
                lo = self._int(it.lower, 0)
                hi = self._int(it.upper, None)
                if hi is None:
                    raise Top("open slice")
                s = w.tied_src(pos)
                if s is None:
                    raise Top("slice of broadcast axis")
                if w.ops[s].rng != FULL:
                    raise Top("slice of restricted axis")
                w.ops[s] = replace(w.ops[s], rng=(lo, hi))
                pos += 1
                continue
            val = None
            try:
                val = self.eval(it)
            except Top:
                raise
            if isinstance(val, IntVal):
                s = w.tied_src(pos)
                if s is not None:
                    op = w.ops[s]
                    k = val.value
                    if op.rng != FULL:
                        if isinstance(op.rng, tuple):
                            k = op.rng[0] + k
                        else:
                            raise Top("int index into valid-restricted axis")
                    w.ops[s] = SrcOp("fix", idx=k)
                w._drop_out(pos)
                continue
            if isinstance(val, ValidIdx):
                if pos != 0 or len(items) != 1:
                    raise Top("valid index not on axis 0")
                s = w.tied_src(0)
                if s is None:
                    raise Top("valid index on broadcast axis")
                if w.ops[s].rng != FULL:
                    raise Top("valid index on restricted axis")
                w.ops[s] = replace(w.ops[s], rng="valid")
                pos += 1
                continue
            raise Top(f"index {u(it)}")
        return w

    def _subscript_ratio(self, r: Ratio, sl: ast.expr) -> Ratio:
        items = self._index_items(sl)
        # only `[:, None]`-style reshaping of a ratio is supported
        roles = list(r.roles)
        pos = 0
        for it in items:
            if isinstance(it, ast.Constant) and it.value is None:
                roles.insert(pos, "1")
                pos += 1
            elif isinstance(it, ast.Slice) and it.lower is None and it.upper is None:
                pos += 1
            else:
                raise Top("ratio subscript")
        return Ratio(r.num, r.den, roles)

    def _int(self, e: Optional[ast.expr], default):
        if e is None:
            return default
        v = self.eval(e)
        if isinstance(v, IntVal):
            return v.value
        raise Top("non-constant slice bound")

    def _axis_arg(self, call: ast.Call) -> Optional[Tuple[int, ...]]:
        axis = None
        for k in call.keywords:
            if k.arg == "axis":
                axis = k.value
        if axis is None and len(call.args) >= 2:
            axis = call.args[1]
        if axis is None:
            return None
        v = self.eval(axis)
        if isinstance(v, IntVal):
            return (v.value,)
        if isinstance(v, tuple) and all(isinstance(x, IntVal) for x in v):
            return tuple(x.value for x in v)
        raise Top("axis argument")

    def _sum(self, v: AV, axes: Optional[Tuple[int, ...]]) -> AV:
        w = v.copy()
        if axes is None:
            axes = tuple(range(w.rank))
        axes = tuple(sorted((a if a >= 0 else w.rank + a) for a in axes))
        for a in axes:
            if a >= w.rank or a < 0:
                raise Top(f"axis {a} out of range for rank {w.rank}")
        for a in reversed(axes):
            s = w.tied_src(a)
            if s is not None:
                op = w.ops[s]
                w.ops[s] = SrcOp("sum", rng=op.rng)
            else:
                if w.roles[a] != "1":
                    w.mult.append(w.roles[a])
            w._drop_out(a)
        return w

    def _broadcast_to(self, v, shape) -> AV:
        if isinstance(shape, Shape):
            target = list(shape.roles)
        elif isinstance(shape, tuple):
            target = []
            for x in shape:
                if isinstance(x, RoleVal):
                    target.append(x.role)
                elif isinstance(x, IntVal) and x.value == 1:
                    target.append("1")
                else:
                    raise Top("broadcast shape element")
        else:
            raise Top("broadcast shape")
        if not isinstance(v, AV):
            raise Top("broadcast of non-array")
        w = v.copy()
        if w.rank > len(target):
            raise RoleClash(f"cannot broadcast rank {w.rank} ({','.join(w.roles)}) to ({','.join(target)})")
        # align trailing
        pad = len(target) - w.rank
        for _ in range(pad):
            w._insert_out(0, "1")
        for i, (have, want) in enumerate(zip(list(w.roles), target)):
            if have == "1":
                w.roles[i] = want
            elif have != want:
                raise RoleClash(
                    f"axis {i}: operand has role {have}, target has role {want} "
                    f"(({','.join(v.roles)}) -> ({','.join(target)}))"
                )
        return w

    def _ratio(self, a, b) -> Ratio:
        ra = a.roles if isinstance(a, (AV, Ratio)) else []
        rb = b.roles if isinstance(b, (AV, Ratio)) else []
        # numpy broadcasting, typed by role
        n = max(len(ra), len(rb))
        pa = ["1"] * (n - len(ra)) + list(ra)
        pb = ["1"] * (n - len(rb)) + list(rb)
        out = []
        for x, y in zip(pa, pb):
            if x == y or y == "1":
                out.append(x)
            elif x == "1":
                out.append(y)
            else:
                raise RoleClash(f"division operands have roles ({','.join(ra)}) and ({','.join(rb)})")
        return Ratio(a, b, out)

    def _call(self, e: ast.Call):
        # a call written with keywords where the evaluator expects positional arguments (or the reverse) is a form it does
        # not interpret (TOP -> undecided), not a crash of the checker
        try:
            return self._call_impl(e)
        except IndexError:
            raise Top(f"call form not interpreted: {u(e)[:60]}")

    def _call_impl(self, e: ast.Call):
        name = _np_name(e.func)
        if name in ("sum", "nansum"):
            v = self.eval(e.args[0])
            if not isinstance(v, AV):
                raise Top("sum of non-array")
            out = self._sum(v, self._axis_arg(e))
            keep = [k for k in e.keywords if k.arg == "keepdims"]
            if keep:
                if u(keep[0].value) == "True":
                    # the summed axes stay, with extent 1
                    axes = self._axis_arg(e)
                    axes = tuple(range(v.rank)) if axes is None else tuple(sorted((a if a >= 0 else v.rank + a) for a in axes))
                    for a in axes:
                        out._insert_out(a, "1")
                elif u(keep[0].value) != "False":
                    raise Top("keepdims argument")
            return out
        if name == "broadcast_to":
            kw = {k.arg: k.value for k in e.keywords}
            arr_e = e.args[0] if e.args else kw.get("array")
            shape_e = e.args[1] if len(e.args) > 1 else kw.get("shape")
            if arr_e is None or shape_e is None:
                raise Top("broadcast_to arguments")
            v = self.eval(arr_e)
            shape = self.eval(shape_e)
            return self._broadcast_to(v, shape)
        if name == "repeat":
            v = self.eval(e.args[0])
            n = self.eval(e.args[1])
            if isinstance(v, AV) and v.rank == 0 and isinstance(n, RoleVal):
                w = v.copy()
                w._insert_out(0, n.role)
                return w
            raise Top("repeat")
        if name == "tile":
            v = self.eval(e.args[0])
            reps = self.eval(e.args[1])
            if isinstance(v, AV) and isinstance(reps, tuple):
                w = v.copy()
                pad = len(reps) - w.rank
                if pad < 0:
                    raise Top("tile rank")
                lead = list(reps[:pad])
                rest = list(reps[pad:])
                if not all(isinstance(x, IntVal) and x.value == 1 for x in rest):
                    raise Top("tile of existing axes")
                for x in reversed(lead):
                    if isinstance(x, RoleVal):
                        w._insert_out(0, x.role)
                    elif isinstance(x, IntVal) and x.value == 1:
                        w._insert_out(0, "1")
                    else:
                        raise Top("tile reps")
                return w
            raise Top("tile")
        if name == "ix_":
            if len(e.args) == 1:
                t = u(e.args[0])
                if t.endswith("valid_elements.element_idxs"):
                    which = "rows" if "_dimensions[-2]" in t or "_dimensions[0]" in t else "other"
                    return ValidIdx(which)
            raise Top("np.ix_")
        if name in ("array", "asarray") and e.args:
            return self.eval(e.args[0])
        # x.astype(...) etc.
        if isinstance(e.func, ast.Attribute) and e.func.attr in ("astype", "copy"):
            return self.eval(e.func.value)
        raise Top(f"call {u(e.func)}")


def source(name: str, roles: Sequence[str]) -> AV:
    return AV(name, tuple(roles), list(roles), [SrcOp("keep", out=i) for i in range(len(roles))])
