"""ORDERKIT - structural recognisers for the ordering algorithms (independent of statement layout).

explicit_order_facts(fn): the "consume from a remaining map" algorithm of the explicit order:
    M      a local map element-id -> payload idx, built over the NON-derived elements of self._elements
    listed loop over self._order_spec.element_ids in which M.pop(id) runs under the guard `id in M`
           (first mention wins: a repeated id is no longer in M; unknown ids never were)
    leftovers: iteration over M (items / keys / values) after the listed loop
dedupe_idioms(fn): idioms that make a sequence duplicate-free (dict.fromkeys, set(...), np.unique, a `seen`
    container with membership test + insertion, consumption from a map).
"""
from __future__ import annotations

import ast
from typing import Dict, List, Optional, Set

from .exprdiff import canon
from .stmts import positive_guard_atoms, resolver
from .symex import u


def _names_loaded(e: ast.AST) -> Set[str]:
    return {n.id for n in ast.walk(e) if isinstance(n, ast.Name)}


def explicit_order_facts(fn: ast.AST) -> Dict[str, object]:
    res = resolver(fn)
    facts: Dict[str, object] = {"map": None, "map_excludes_derived": None, "map_over_elements": None, "listed_pop_guarded": None,
                                "listed_loop": None, "leftovers": None, "lookup_without_consumption": [], "unguarded_pop": []}
    # pops: M.pop(x)
    pops = [n for n in ast.walk(fn) if isinstance(n, ast.Call) and isinstance(n.func, ast.Attribute) and n.func.attr == "pop" and isinstance(n.func.value, ast.Name) and n.args]
    # loops over the listed ids
    listed_loops = []
    for n in ast.walk(fn):
        if isinstance(n, (ast.For, ast.comprehension)):
            its = [u(x) for x in res(n.iter)]
            if any(t.replace(" ", "") in ("self._order_spec.element_ids",) or t.endswith("_order_spec.element_ids") for t in its):
                listed_loops.append(n)
    facts["listed_loop"] = bool(listed_loops)
    for lp in listed_loops:
        var = lp.target.id if isinstance(lp.target, ast.Name) else None
        inside = set()
        for x in ast.walk(lp):
            inside.add(id(x))
        for p in pops:
            if id(p) in inside and var is not None and u(p.args[0]) == var:
                M = p.func.value.id
                facts["map"] = M
                held = [u(canon(a)) for a in positive_guard_atoms(fn, p, resolve=False)]
                guarded = f"{var} in {M}" in held
                has_default = len(p.args) > 1
                facts["listed_pop_guarded"] = True if guarded else (None if has_default else False)
                if not guarded and not has_default:
                    facts["unguarded_pop"].append(u(p))
        if facts["map"] is None and var is not None:
            # a lookup M[var] / M.get(var) without consumption
            for x in ast.walk(lp) if isinstance(lp, ast.For) else []:
                if isinstance(x, ast.Subscript) and isinstance(x.value, ast.Name) and u(x.slice) == var and isinstance(x.ctx, ast.Load):
                    facts["lookup_without_consumption"].append(u(x))
    M = facts["map"]
    if M:
        # construction of M
        built_from, excl = None, None
        for n in ast.walk(fn):
            # M = Ctor(<genexp over enumerate(self._elements) if not element.derived>)
            if isinstance(n, (ast.Assign, ast.AnnAssign)):
                tgt = n.targets[0] if isinstance(n, ast.Assign) else n.target
                if isinstance(tgt, ast.Name) and tgt.id == M and n.value is not None:
                    for c in ast.walk(n.value):
                        if isinstance(c, ast.comprehension):
                            if "self._elements" in u(c.iter):
                                built_from = True
                            for cond in c.ifs:
                                if u(canon(cond)) in ("not element.derived",) or (u(cond).startswith("not ") and u(cond).endswith(".derived")):
                                    excl = True
            # M[key] = idx inside `for idx, element in enumerate(self._elements)`
            if isinstance(n, ast.For) and "self._elements" in u(n.iter):
                for st in ast.walk(n):
                    if isinstance(st, ast.Assign) and isinstance(st.targets[0], ast.Subscript) and isinstance(st.targets[0].value, ast.Name) and st.targets[0].value.id == M:
                        built_from = True
                        held = [u(canon(a)) for a in positive_guard_atoms(fn, st, resolve=False)]
                        if any(h.startswith("not ") and h.endswith(".derived") for h in held):
                            excl = True
        facts["map_over_elements"] = built_from
        facts["map_excludes_derived"] = excl
        # leftovers: iteration over M after the listed loop
        first_listed = min((getattr(lp, "lineno", None) or getattr(lp.iter, "lineno", 0)) for lp in listed_loops) if listed_loops else 0
        for n in ast.walk(fn):
            if isinstance(n, (ast.For, ast.comprehension)):
                it = n.iter
                root = it.func.value if isinstance(it, ast.Call) and isinstance(it.func, ast.Attribute) and it.func.attr in ("items", "keys", "values") else it
                if isinstance(root, ast.Name) and root.id == M and getattr(it, "lineno", 0) > first_listed:
                    facts["leftovers"] = True
    return facts


def dedupe_idioms(fn: ast.AST) -> List[str]:
    out: List[str] = []
    for n in ast.walk(fn):
        if isinstance(n, ast.Call):
            f = u(n.func)
            if f in ("dict.fromkeys", "collections.OrderedDict.fromkeys", "OrderedDict.fromkeys"):
                out.append("dict.fromkeys")
            elif f in ("set", "frozenset") and n.args:
                out.append("set()")
            elif f in ("np.unique", "unique_everseen", "more_itertools.unique_everseen"):
                out.append(f)
            elif isinstance(n.func, ast.Attribute) and n.func.attr == "pop" and isinstance(n.func.value, ast.Name) and n.args:
                held = [u(canon(a)) for a in positive_guard_atoms(fn, n, resolve=False)]
                if f"{u(n.args[0])} in {n.func.value.id}" in held:
                    out.append("consume-from-map")
    # `seen` container: membership test on S and insertion into S of the same expression
    tests: Dict[str, Set[str]] = {}
    for n in ast.walk(fn):
        if isinstance(n, ast.Compare) and len(n.ops) == 1 and isinstance(n.ops[0], (ast.In, ast.NotIn)) and isinstance(n.comparators[0], ast.Name):
            tests.setdefault(n.comparators[0].id, set()).add(u(n.left))
    for n in ast.walk(fn):
        if isinstance(n, ast.Assign) and isinstance(n.targets[0], ast.Subscript) and isinstance(n.targets[0].value, ast.Name):
            S, k = n.targets[0].value.id, u(n.targets[0].slice)
            if k in tests.get(S, ()):
                out.append("seen-container")
        if isinstance(n, ast.Call) and isinstance(n.func, ast.Attribute) and n.func.attr in ("add", "setdefault", "append") and isinstance(n.func.value, ast.Name) and n.args:
            S, k = n.func.value.id, u(n.args[0])
            if k in tests.get(S, ()):
                out.append("seen-container")
    return sorted(set(out))


def _map_excludes_derived(fn: ast.AST, M: str) -> Optional[bool]:
    """Is the local map `M` built over non-derived elements only?  True / False (built without the filter) / None."""
    verdict = None
    for n in ast.walk(fn):
        if isinstance(n, (ast.Assign, ast.AnnAssign)):
            tgt = n.targets[0] if isinstance(n, ast.Assign) else n.target
            if isinstance(tgt, ast.Name) and tgt.id == M and n.value is not None:
                comps = [c for c in ast.walk(n.value) if isinstance(c, ast.comprehension)]
                for c in comps:
                    conds = [u(canon(x)) for x in c.ifs]
                    if any(t.startswith("not ") and t.endswith(".derived") for t in conds):
                        verdict = True
                    elif verdict is None:
                        verdict = False
        if isinstance(n, ast.For):
            for st in ast.walk(n):
                if isinstance(st, ast.Assign) and isinstance(st.targets[0], ast.Subscript) and isinstance(st.targets[0].value, ast.Name) and st.targets[0].value.id == M:
                    held = [u(canon(a)) for a in positive_guard_atoms(fn, st, resolve=False)]
                    if any(h.startswith("not ") and h.endswith(".derived") for h in held):
                        verdict = True
                    elif verdict is None:
                        verdict = False
    return verdict


def base_descriptor_emissions(fn: ast.AST) -> List[Dict[str, object]]:
    """Every place where the explicit-order base descriptors EMIT an (idx, id) pair (yield / append), with the evidence
    that a derived element cannot be emitted there: a dominating `not element.derived`, or the idx taken from a map built
    over non-derived elements."""
    maps = set()
    for n in ast.walk(fn):
        if isinstance(n, (ast.Assign, ast.AnnAssign)):
            tgt = n.targets[0] if isinstance(n, ast.Assign) else n.target
            v = n.value
            if isinstance(tgt, ast.Name) and v is not None and (isinstance(v, (ast.Dict, ast.DictComp)) or (isinstance(v, ast.Call) and u(v.func).split(".")[-1] in ("dict", "OrderedDict"))):
                maps.add(tgt.id)
    out = []
    for n in ast.walk(fn):
        emitted = None
        if isinstance(n, ast.Yield) and n.value is not None:
            emitted = n.value
        elif isinstance(n, ast.Call) and isinstance(n.func, ast.Attribute) and n.func.attr == "append" and n.args and isinstance(n.args[0], ast.Tuple):
            emitted = n.args[0]
        if emitted is None:
            continue
        held = [u(canon(a)) for a in positive_guard_atoms(fn, n, resolve=False)]
        guarded = any(h.startswith("not ") and h.endswith(".derived") for h in held)
        used = {x.id for x in ast.walk(emitted) if isinstance(x, ast.Name) and x.id in maps}
        # the loop the emission sits in may iterate a map
        for lp in ast.walk(fn):
            if isinstance(lp, ast.For) and any(x is n for x in ast.walk(lp)):
                root = lp.iter.func.value if isinstance(lp.iter, ast.Call) and isinstance(lp.iter.func, ast.Attribute) else lp.iter
                if isinstance(root, ast.Name) and root.id in maps:
                    used.add(root.id)
        # an idx assigned from a map just before: idx = M.pop(id) / M[id]
        for st in ast.walk(fn):
            if isinstance(st, ast.Assign) and isinstance(st.targets[0], ast.Name) and any(isinstance(x, ast.Name) and x.id == st.targets[0].id for x in ast.walk(emitted)):
                used |= {x.id for x in ast.walk(st.value) if isinstance(x, ast.Name) and x.id in maps}
        via = {M: _map_excludes_derived(fn, M) for M in sorted(used)}
        out.append({"emits": u(emitted)[:60], "guarded": guarded, "maps": via})
    return out
