"""ORACLE for tensor layouts - written from the property statements (C01, C02, C09, C16),
independent of the repository code.

Kinds: CAT | ARR | MR for the rows / columns dimension of a 2-D slice.
Raw tensor roles after the slice expression: R [Rsel] C [Csel]  (sel axes only for MR).
sel index 0 = selected, 1 = other, (2 = missing, only in counts-with-missings).

Normal-form text (same syntax AXIS prints):  "out=(R,C) R:K Rsel:F0 C:Σ"
  K   = own index kept,  F0 = fixed at selected,  Σ = summed over the full range,
  Σ[0:2] = summed over selected+other,  K[valid] = kept, restricted to valid rows.
"""
from __future__ import annotations

from typing import Dict, List, Optional, Tuple

KINDS = ("CAT", "ARR", "MR")

# class-name fragment used by the repository for each kind (a naming convention the
# unit tests also rely on: they import these classes by name)
FRAG = {"CAT": "Cat", "ARR": "Arr", "MR": "Mr"}


def src_roles(rk: str, ck: str) -> Tuple[str, ...]:
    roles: List[str] = ["R"]
    if rk == "MR":
        roles.append("Rsel")
    roles.append("C")
    if ck == "MR":
        roles.append("Csel")
    return tuple(roles)


def _fmt(out: Tuple[str, ...], ops: Dict[str, str], roles: Tuple[str, ...]) -> str:
    return f"out=({','.join(out)}) " + " ".join(f"{r}:{ops[r]}" for r in roles)


def _own(kind: str, ax: str) -> Dict[str, str]:
    """Own dimension of a directional base / of counts: the element itself, selected plane."""
    d = {ax: "K"}
    if kind == "MR":
        d[ax + "sel"] = "F0"
    return d


def _opposing(kind: str, ax: str) -> Dict[str, str]:
    """Opposing dimension of a base: everybody with a valid answer on it.

    CAT -> summed over all categories; MR -> the item kept, selected+other summed
    (valid on that particular item); ARR -> the item kept (no addition across items).
    """
    if kind == "CAT":
        return {ax: "Σ"}
    if kind == "MR":
        return {ax: "K", ax + "sel": "Σ"}
    return {ax: "K"}


def counts(rk: str, ck: str) -> str:
    roles = src_roles(rk, ck)
    return _fmt(("R", "C"), {**_own(rk, "R"), **_own(ck, "C")}, roles)


def row_bases(rk: str, ck: str) -> str:
    roles = src_roles(rk, ck)
    return _fmt(("R", "C"), {**_own(rk, "R"), **_opposing(ck, "C")}, roles)


def column_bases(rk: str, ck: str) -> str:
    roles = src_roles(rk, ck)
    return _fmt(("R", "C"), {**_opposing(rk, "R"), **_own(ck, "C")}, roles)


def table_bases(rk: str, ck: str) -> str:
    roles = src_roles(rk, ck)
    return _fmt(("R", "C"), {**_opposing(rk, "R"), **_opposing(ck, "C")}, roles)


def rows_base(rk: str, ck: str) -> Optional[str]:
    """1-D collapsed row base: defined iff the columns dimension is CAT."""
    if ck != "CAT":
        return None
    roles = src_roles(rk, ck)
    return _fmt(("R",), {**_own(rk, "R"), "C": "Σ"}, roles)


def columns_base(rk: str, ck: str) -> Optional[str]:
    if rk != "CAT":
        return None
    roles = src_roles(rk, ck)
    return _fmt(("C",), {"R": "Σ", **_own(ck, "C")}, roles)


def rows_table_base(rk: str, ck: str) -> Optional[str]:
    if ck != "CAT":
        return None
    roles = src_roles(rk, ck)
    return _fmt(("R",), {**_opposing(rk, "R"), "C": "Σ"}, roles)


def columns_table_base(rk: str, ck: str) -> Optional[str]:
    if rk != "CAT":
        return None
    roles = src_roles(rk, ck)
    return _fmt(("C",), {"R": "Σ", **_opposing(ck, "C")}, roles)


def table_base(rk: str, ck: str) -> Optional[str]:
    if rk != "CAT" or ck != "CAT":
        return None
    return _fmt((), {"R": "Σ", "C": "Σ"}, src_roles(rk, ck))


def rows_pruning_base(rk: str, ck: str) -> str:
    """Support of the unweighted base deciding whether a row is empty (C09).

    Everybody eligible for the row: own element kept; for an MR row selected+other,
    EXCEPT when crossed with another MR dimension (then selected only); everything on
    the opposing dimension summed.
    """
    roles = src_roles(rk, ck)
    ops = {"R": "K", "C": "Σ"}
    if rk == "MR":
        ops["Rsel"] = "F0" if ck == "MR" else "Σ"
    if ck == "MR":
        ops["Csel"] = "Σ"
    return _fmt(("R",), ops, roles)


def columns_pruning_base(rk: str, ck: str) -> str:
    roles = src_roles(rk, ck)
    ops = {"R": "Σ", "C": "K"}
    if rk == "MR":
        ops["Rsel"] = "Σ"
    if ck == "MR":
        ops["Csel"] = "F0" if rk == "MR" else "Σ"
    return _fmt(("C",), ops, roles)


def numeric_extract(rmr: bool, cmr: bool) -> str:
    """means / medians / stddev / sums: the value the response carries for the cell."""
    roles = src_roles("MR" if rmr else "CAT", "MR" if cmr else "CAT")
    ops = {"R": "K", "C": "K"}
    if rmr:
        ops["Rsel"] = "F0"
    if cmr:
        ops["Csel"] = "F0"
    return _fmt(("R", "C"), ops, roles)


# ---- unconditional baseline (C16); sel axes have extent 3, element axes include missing
def baseline(rmr: bool, cmr: bool) -> str:
    roles = src_roles("MR" if rmr else "CAT", "MR" if cmr else "CAT")
    num: Dict[str, str] = {}
    den: Dict[str, str] = {}
    # row side
    if rmr:
        # MR rows: an MR_SUBVAR axis has no missing elements (valid restriction optional)
        num.update({"R": "K*", "Rsel": "F0"})
        den.update({"R": "K*", "Rsel": "Σ[0:2]"})
    else:
        num.update({"R": "K[valid]"})
        den.update({"R": "Σ[valid]"})
    # column side: always the FULL range including missing
    if cmr:
        num.update({"C": "K", "Csel": "Σ"})
        den.update({"C": "K", "Csel": "Σ"})
    else:
        num.update({"C": "Σ"})
        den.update({"C": "Σ"})
    return " ".join(f"{r}:{num[r]}" for r in roles) + "  /  " + " ".join(f"{r}:{den[r]}" for r in roles)


# ---- stripe (1-D)
def stripe_roles(kind: str) -> Tuple[str, ...]:
    return ("R", "Rsel") if kind == "MR" else ("R",)


def stripe(kind: str, what: str) -> Optional[str]:
    roles = stripe_roles(kind)
    if what == "counts":
        ops = _own(kind, "R")
        return _fmt(("R",), ops, roles)
    if what == "bases":
        if kind == "CAT":
            return _fmt(("R",), {"R": "Σ"}, roles)
        if kind == "MR":
            return _fmt(("R",), {"R": "K", "Rsel": "Σ"}, roles)
        return _fmt(("R",), {"R": "K"}, roles)
    if what == "table_base":
        return _fmt((), {"R": "Σ"}, roles) if kind == "CAT" else None
    if what == "pruning_base":
        if kind == "MR":
            return _fmt(("R",), {"R": "K", "Rsel": "Σ"}, roles)
        return _fmt(("R",), {"R": "K"}, roles)
    raise KeyError(what)
