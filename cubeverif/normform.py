"""NORM - rational normal form of numeric expressions (term rewriting, no solver).

A value is represented as  R * sqrt(S)  with R, S rational functions (pairs of expanded
polynomials with Fraction coefficients over opaque atoms).  Equality of rational
functions is decided by cross-multiplication and polynomial identity.  Floating-point
re-association is outside the model.
"""
from __future__ import annotations

import ast
from fractions import Fraction
from typing import Callable, Dict, List, Optional, Tuple

from .exprdiff import canon
from .symex import u

Mono = Tuple[Tuple[str, int], ...]


class NTop(Exception):
    pass


class Poly:
    __slots__ = ("t",)

    def __init__(self, terms: Optional[Dict[Mono, Fraction]] = None):
        self.t: Dict[Mono, Fraction] = {k: v for k, v in (terms or {}).items() if v != 0}

    @staticmethod
    def const(c) -> "Poly":
        return Poly({(): Fraction(c)})

    @staticmethod
    def atom(name: str) -> "Poly":
        return Poly({((name, 1),): Fraction(1)})

    def __add__(self, o: "Poly") -> "Poly":
        t = dict(self.t)
        for k, v in o.t.items():
            t[k] = t.get(k, 0) + v
        return Poly(t)

    def __neg__(self) -> "Poly":
        return Poly({k: -v for k, v in self.t.items()})

    def __sub__(self, o: "Poly") -> "Poly":
        return self + (-o)

    def __mul__(self, o: "Poly") -> "Poly":
        t: Dict[Mono, Fraction] = {}
        for k1, v1 in self.t.items():
            for k2, v2 in o.t.items():
                d: Dict[str, int] = dict(k1)
                for a, e in k2:
                    d[a] = d.get(a, 0) + e
                k = tuple(sorted((a, e) for a, e in d.items() if e != 0))
                t[k] = t.get(k, 0) + v1 * v2
        return Poly(t)

    def is_zero(self) -> bool:
        return not self.t

    def is_const(self) -> Optional[Fraction]:
        if not self.t:
            return Fraction(0)
        if len(self.t) == 1 and () in self.t:
            return self.t[()]
        return None

    def __eq__(self, o) -> bool:
        return isinstance(o, Poly) and self.t == o.t

    def text(self) -> str:
        if not self.t:
            return "0"
        parts = []
        for k in sorted(self.t):
            c = self.t[k]
            m = "*".join(a if e == 1 else f"{a}^{e}" for a, e in k)
            parts.append(f"{c}" + (f"*{m}" if m else ""))
        return " + ".join(parts)


class Rat:
    __slots__ = ("n", "d")

    def __init__(self, n: Poly, d: Optional[Poly] = None):
        self.n = n
        self.d = d if d is not None else Poly.const(1)

    def __add__(self, o: "Rat") -> "Rat":
        if self.d == o.d:
            return Rat(self.n + o.n, self.d)
        return Rat(self.n * o.d + o.n * self.d, self.d * o.d)

    def __neg__(self):
        return Rat(-self.n, self.d)

    def __sub__(self, o):
        return self + (-o)

    def __mul__(self, o):
        return Rat(self.n * o.n, self.d * o.d)

    def inv(self):
        if self.n.is_zero():
            raise NTop("division by zero polynomial")
        return Rat(self.d, self.n)

    def __truediv__(self, o):
        return self * o.inv()

    def equals(self, o: "Rat") -> bool:
        return (self.n * o.d - o.n * self.d).is_zero()

    def is_one(self) -> bool:
        return self.equals(Rat(Poly.const(1)))

    def const_ratio(self, o: "Rat") -> Optional[Fraction]:
        """c such that self == c * o (c a rational constant), else None."""
        a = self.n * o.d
        b = o.n * self.d
        if b.is_zero():
            return None
        # pick any monomial of b
        k = next(iter(sorted(b.t)))
        if k not in a.t:
            return None
        c = a.t[k] / b.t[k]
        if (a - Poly.const(c) * b).is_zero():
            return c
        return None

    def text(self) -> str:
        dc = self.d.is_const()
        if dc == 1:
            return self.n.text()
        return f"({self.n.text()}) / ({self.d.text()})"


ONE = Rat(Poly.const(1))


class Form:
    """R * sqrt(S)"""

    def __init__(self, r: Rat, s: Optional[Rat] = None, notes: Optional[List[str]] = None):
        self.r = r
        self.s = s if s is not None else ONE
        self.notes = notes or []

    def mul(self, o: "Form") -> "Form":
        return Form(self.r * o.r, self.s * o.s, self.notes + o.notes)

    def div(self, o: "Form") -> "Form":
        return Form(self.r / o.r, self.s / o.s, self.notes + o.notes)

    def add(self, o: "Form", sign: int = 1) -> "Form":
        if self.s.equals(o.s):
            return Form(self.r + o.r if sign > 0 else self.r - o.r, self.s, self.notes + o.notes)
        raise NTop("sum of terms with different radicals")

    def equals(self, o: "Form") -> bool:
        if self.s.equals(o.s):
            return self.r.equals(o.r)
        c = o.s.const_ratio(self.s)  # o.s == c * self.s
        if c is None or c <= 0:
            return False
        k = _frac_sqrt(c)
        if k is None:
            return False
        # self = r1 sqrt(s1); o = r2 sqrt(c s1) = r2 k sqrt(s1)
        return self.r.equals(o.r * Rat(Poly.const(k)))

    def text(self) -> str:
        if self.s.is_one():
            return self.r.text()
        return f"[{self.r.text()}] * sqrt[{self.s.text()}]"


def _frac_sqrt(c: Fraction) -> Optional[Fraction]:
    import math

    n, d = c.numerator, c.denominator
    rn, rd = math.isqrt(n), math.isqrt(d)
    if rn * rn == n and rd * rd == d:
        return Fraction(rn, rd)
    return None


SQRT_NAMES = {"np.sqrt", "math.sqrt", "sqrt"}
ABS_NAMES = {"abs", "np.abs", "np.absolute"}
POW_NAMES = {"pow", "np.power"}


class Normalizer:
    def __init__(self, rename: Optional[Dict[str, str]] = None, atom_hook: Optional[Callable[[ast.expr], Optional[str]]] = None):
        self.rename = rename or {}
        self.atom_hook = atom_hook
        self.atoms: Dict[str, ast.expr] = {}

    def atom(self, e: ast.expr) -> Form:
        name = None
        if self.atom_hook is not None:
            name = self.atom_hook(e)
        if name is None:
            name = u(canon(e))
        name = self.rename.get(name, name)
        self.atoms.setdefault(name, e)
        return Form(Rat(Poly.atom(name)))

    def form(self, e: ast.expr) -> Form:
        if self.atom_hook is not None and isinstance(e, (ast.Call, ast.Subscript)):
            name = self.atom_hook(e)
            if name is not None:
                name = self.rename.get(name, name)
                self.atoms.setdefault(name, e)
                return Form(Rat(Poly.atom(name)))
        if isinstance(e, ast.Constant):
            if isinstance(e.value, bool) or not isinstance(e.value, (int, float)):
                raise NTop(f"constant {e.value!r}")
            return Form(Rat(Poly.const(Fraction(str(e.value)))))
        if isinstance(e, ast.UnaryOp):
            if isinstance(e.op, ast.USub):
                f = self.form(e.operand)
                return Form(-f.r, f.s, f.notes)
            if isinstance(e.op, ast.UAdd):
                return self.form(e.operand)
            raise NTop("unary op")
        if isinstance(e, ast.BinOp):
            if isinstance(e.op, ast.Pow):
                if isinstance(e.right, ast.Constant) and isinstance(e.right.value, int) and 0 <= e.right.value <= 6:
                    base = self.form(e.left)
                    out = Form(ONE)
                    for _ in range(e.right.value):
                        out = out.mul(base)
                    # (r sqrt(s))^2 = r^2 s
                    if e.right.value % 2 == 0 and not base.s.is_one():
                        half = e.right.value // 2
                        r = ONE
                        for _ in range(e.right.value):
                            r = r * base.r
                        s = ONE
                        for _ in range(half):
                            s = s * base.s
                        return Form(r * s, ONE, base.notes)
                    return out
                if isinstance(e.right, ast.Constant) and e.right.value == 0.5:
                    return self._sqrt(self.form(e.left))
                raise NTop("power")
            a, b = self.form(e.left), self.form(e.right)
            if isinstance(e.op, ast.Add):
                return a.add(b, 1)
            if isinstance(e.op, ast.Sub):
                return a.add(b, -1)
            if isinstance(e.op, ast.Mult):
                return a.mul(b)
            if isinstance(e.op, ast.Div):
                return a.div(b)
            raise NTop(f"binop {type(e.op).__name__}")
        if isinstance(e, ast.Call):
            fn = u(e.func)
            if fn in SQRT_NAMES and len(e.args) == 1 and not e.keywords:
                return self._sqrt(self.form(e.args[0]))
            if fn in ABS_NAMES and len(e.args) == 1 and not e.keywords:
                f = self.form(e.args[0])
                return Form(f.r, f.s, f.notes + ["abs-weakened"])
            if fn in POW_NAMES and len(e.args) == 2:
                return self.form(ast.BinOp(left=e.args[0], op=ast.Pow(), right=e.args[1]))
            # np.maximum(x, 0) / np.clip(x, 0, None): a clamp of a quantity that is non-negative in exact arithmetic (a count
            # obtained by subtracting float sums) is the identity of the algebra; noted, like abs()
            if fn == "np.maximum" and len(e.args) == 2 and not e.keywords and any(isinstance(a, ast.Constant) and a.value == 0 for a in e.args):
                inner = e.args[1] if (isinstance(e.args[0], ast.Constant) and e.args[0].value == 0) else e.args[0]
                f = self.form(inner)
                return Form(f.r, f.s, f.notes + ["clamped-at-zero"])
            if fn == "np.clip" and len(e.args) == 3 and not e.keywords and isinstance(e.args[1], ast.Constant) and e.args[1].value == 0 and isinstance(e.args[2], ast.Constant) and e.args[2].value is None:
                f = self.form(e.args[0])
                return Form(f.r, f.s, f.notes + ["clamped-at-zero"])
            if fn in ("np.divide", "np.true_divide") and len(e.args) == 2 and not e.keywords:
                return self.form(e.args[0]).div(self.form(e.args[1]))
            if fn == "np.multiply" and len(e.args) == 2 and not e.keywords:
                return self.form(e.args[0]).mul(self.form(e.args[1]))
            if fn == "np.add" and len(e.args) == 2 and not e.keywords:
                return self.form(e.args[0]).add(self.form(e.args[1]), 1)
            if fn == "np.subtract" and len(e.args) == 2 and not e.keywords:
                return self.form(e.args[0]).add(self.form(e.args[1]), -1)
            if fn == "np.square" and len(e.args) == 1 and not e.keywords:
                f = self.form(e.args[0])
                return f.mul(f)
            # function atom: arguments canonicalised through their own normal form text
            parts = []
            for a in e.args:
                try:
                    parts.append(self.form(a).text())
                except NTop:
                    parts.append(u(canon(a)))
            kws = ",".join(f"{k.arg}={self._kwtext(k.value)}" for k in sorted(e.keywords, key=lambda k: k.arg or ""))
            name = f"{fn}({'; '.join(parts)}{';' + kws if kws else ''})"
            self.atoms.setdefault(name, e)
            return Form(Rat(Poly.atom(name)))
        return self.atom(e)

    def _kwtext(self, v: ast.expr) -> str:
        try:
            return self.form(v).text()
        except NTop:
            return u(canon(v))

    @staticmethod
    def _sqrt(f: Form) -> Form:
        if not f.s.is_one():
            raise NTop("nested radical")
        return Form(ONE, f.r, f.notes)


def parse_expr(text: str) -> ast.expr:
    return ast.parse(text, mode="eval").body


def equal(code_expr: ast.expr, spec_text: str, rename_code: Optional[Dict[str, str]] = None, rename_spec: Optional[Dict[str, str]] = None, atom_hook=None) -> Tuple[Optional[bool], str, str, List[str]]:
    """-> (verdict, code normal form, spec normal form, notes);  verdict None = outside the subset."""
    try:
        nc = Normalizer(rename_code, atom_hook)
        fc = nc.form(code_expr)
    except NTop as t:
        return None, f"NORM: {t}", "", []
    ns = Normalizer(rename_spec)
    fs = ns.form(parse_expr(spec_text))
    verdict = fc.equals(fs)
    if not verdict:
        why = indefinite_mismatch(nc, ns)
        if why:
            return None, "NORM: " + why + " :: " + fc.text()[:200], fs.text(), fc.notes
    return verdict, fc.text(), fs.text(), fc.notes


def _structured(atom: str) -> bool:
    """An atom that selects PART of an array by something other than constant integers (a slice, a fancy index,
    a computed index): how a reference column / plane is taken can be respelled in many equivalent ways."""
    try:
        e = ast.parse(atom, mode="eval").body
    except SyntaxError:
        return False
    for n in ast.walk(e):
        if isinstance(n, ast.Subscript):
            parts = n.slice.elts if isinstance(n.slice, ast.Tuple) else [n.slice]
            for p in parts:
                if not (isinstance(p, ast.Constant) and isinstance(p.value, int)) and not (isinstance(p, ast.UnaryOp) and isinstance(p.operand, ast.Constant)):
                    return True
    return False


def indefinite_mismatch(nc: "Normalizer", ns: "Normalizer") -> str:
    """A mismatch of two normal forms is definite only inside the algebra.  It is NOT when
    * the two sides use different UNINTERPRETED functions (norm.sf for 1 - norm.cdf, x.sum() for np.sum(x)): a
      function of the specification replaced by ANOTHER function (a function merely added where the
      specification has a leaf - np.sum(counts) for the total, sqrt(v, out=v) for sqrt(v) - stays definite);
    * the code has an atom unknown to the specification that selects part of an array by a slice / fancy index
      (`means[:, [k]]` for `np.broadcast_to(means[:, [k]], means.shape)`): respellings of HOW an operand is obtained.
    -> reason text, or '' when the mismatch is definite."""

    def call_heads(norm):
        return {a.split("(", 1)[0] for a in norm.atoms if "(" in a and not a.startswith("REF[")}

    if call_heads(nc) - call_heads(ns) and call_heads(ns) - call_heads(nc):
        return "different uninterpreted functions " + str(sorted(call_heads(nc) ^ call_heads(ns)))
    # an atom that is itself a program (a comprehension, a lambda) is not an operand the algebra knows anything about
    opaque = [a for a in nc.atoms if a not in ns.atoms and (" for " in a and " in " in a or a.lstrip("(").startswith("lambda "))]
    if opaque:
        return "operand(s) computed by a comprehension the algebra does not interpret: " + str(sorted(x[:80] for x in opaque)[:2])
    unknown = [a for a in nc.atoms if a not in ns.atoms and not a.startswith("REF[") and _structured(a)]
    if unknown:
        return "operand(s) obtained by a slice / fancy index the specification does not name: " + str(sorted(unknown)[:3])
    return ""
