# encoding: utf-8

"""Pre-existing (unmodified library): `_Nub.table_base` is the mean, not a base.

A 0-D cube (mean of a numeric variable, no dimensions) yields a `_Nub` partition whose
`.table_base` is documented as "Int scalar of the unweighted N of the table" but returns
the cube *mean* (cr/cube/scalar.py::MeansScalar.table_base carries a TODO about it).
Prints PASS / exit 0 when table_base equals the unweighted N, FAIL / exit 1 otherwise.
"""

import sys

import numpy as np

from cr.cube.cube import Cube

RESPONSE = {
    "result": {
        "dimensions": [],
        "missing": 0,
        "n": 1000,
        "counts": [1000],
        "measures": {
            "count": {"data": [1000], "n_missing": 0, "metadata": {}},
            "mean": {"data": [49.095], "n_missing": 0, "metadata": {}},
        },
        "element": "crunch:cube",
    }
}

nub = Cube(RESPONSE).partitions[0]
observed = np.asarray(nub.table_base, dtype=float).ravel().tolist()
expected = [1000.0]
if observed == expected:
    print("PASS")
    sys.exit(0)
print("FAIL\n  _Nub.table_base: observed %s, expected %s (unweighted N)" % (observed, expected))
sys.exit(1)
