# encoding: utf-8

"""Pre-existing (unmodified library) C01 corner: padding of a single-column filter cube.

`Cube.augment_response()` pads a single-column filter cube of a multitable (CubeSet) out
to the rows of the summary cube. It places each count at `summary_element["id"]`, i.e. it
takes the *id* of a summary element for its *position* in the payload. That holds when
ZZ9 numbers the elements 0..n-1 in payload order, but not when the missing element
(id -1, the convention also used by tests/unit/test_cube.py) sits in the middle of the
summary payload: every later row label then has id == position - 1, its count lands one
slot early (possibly on the missing element, where it is dropped) and the rows of the
padded strand show the counts of other rows.

Survey: text variable t in {A, B, C} plus some "No Data"; filter column f.
  summary cube rows : A, <missing>, B, C      (missing element mid-payload)
  filter cube rows  : A, C, <missing>         (nobody with t == B passes the filter)

Prints PASS / exits 0 when the padded filter strand reports A=3, B=0, C=4, prints FAIL /
exits 1 otherwise.
"""

import sys

from cr.cube.cube import CubeSet

MISSING = {"id": -1, "missing": True, "value": {"?": -1}}


def element(id_, value):
    return {"id": id_, "missing": False, "value": value}


def text_response(elements, counts, single_col=False):
    result = {
        "counts": counts,
        "measures": {"count": {"data": list(counts)}},
        "dimensions": [
            {
                "references": {"alias": "t", "name": "T"},
                "type": {
                    "class": "enum",
                    "elements": elements,
                    "subtype": {
                        "class": "text",
                        "missing_reasons": {"No Data": -1},
                        "missing_rules": {},
                    },
                },
            }
        ],
    }
    if single_col:
        result["is_single_col_cube"] = True
    return {"result": result}


# --- respondents: t = A x5, B x6, C x7, No Data x2; filter f passes 3 A, 0 B, 4 C, 1 ND
summary = text_response(
    [element(0, "A"), MISSING, element(1, "B"), element(2, "C")], [5, 2, 6, 7]
)
filter_cube = text_response(
    [element(0, "A"), element(1, "C"), MISSING], [3, 4, 1], single_col=True
)

cube_set = CubeSet([summary, filter_cube], [{}, {}], population=1000, min_base=0)
summary_strand, filter_strand = cube_set.partition_sets[0]

ok = (
    list(summary_strand.row_labels) == ["A", "B", "C"]
    and summary_strand.counts.tolist() == [5, 6, 7]
    and list(filter_strand.row_labels) == ["A", "B", "C"]
    and filter_strand.counts.tolist() == [3, 0, 4]
    and filter_strand.unweighted_counts.tolist() == [3, 0, 4]
)
if ok:
    print("PASS")
    sys.exit(0)

print("FAIL")
print("  summary strand :", list(summary_strand.row_labels), summary_strand.counts.tolist())
print("  filter strand  :", list(filter_strand.row_labels), filter_strand.counts.tolist())
print("  expected filter: ['A', 'B', 'C'] [3, 0, 4]")
sys.exit(1)
