# encoding: utf-8
"""Pre-existing oddity (unmodified library): `_ScaleMeanSmoothed` also runs the smoother
over the *column-subtotal* block of the column proportions, i.e. along the axis of the
inserted subtotal columns as if they were consecutive periods. With >= `window`
subtotal columns on the categorical-date dimension, the smoothed scale mean of the first
w-1 subtotal columns becomes NaN and the others are averaged across unrelated subtotals,
instead of being the scale mean of that subtotal column's own proportions
(`columns_scale_mean` at the same position).
"""
import json
import sys
import warnings

import numpy as np

from cr.cube.cube import Cube

with open("/repo/tests/fixtures/cat-x-cat-date.json") as f:
    response = json.load(f)

transforms = {
    "columns_dimension": {
        "smoother": {"function": "one_sided_moving_avg", "window": 2},
        "insertions": [
            {"function": "subtotal", "name": "A", "args": [1, 2], "anchor": "bottom", "id": 1},
            {"function": "subtotal", "name": "B", "args": [3, 4], "anchor": "bottom", "id": 2},
        ],
    }
}
with warnings.catch_warnings():
    warnings.simplefilter("ignore")
    slice_ = Cube(response, transforms=transforms).partitions[0]
    plain = slice_.columns_scale_mean
    smoothed = slice_.smoothed_columns_scale_mean
    inserted = list(slice_.inserted_column_idxs)

print("inserted column idxs      :", inserted)
print("columns_scale_mean         :", plain.tolist())
print("smoothed_columns_scale_mean:", smoothed.tolist())
ok = np.allclose(plain[inserted], smoothed[inserted], equal_nan=True)
print("PASS" if ok else "FAIL: subtotal columns were 'smoothed' across each other")
sys.exit(0 if ok else 1)
