# encoding: utf-8

"""Pre-existing (unmodified library) violation of C01, NaN clause.

A numeric-array mean whose payload nests the per-subvariable values in a list (as the
`num-arr-means-no-grouping` fixture does: "data": [[2.5, 25]]) and marks one of them
unavailable ({"?": -1}) does not surface as NaN: the mean measure cannot be read at all
(TypeError from np.array(..., dtype=float64) in _MeanMeasure._flat_values, which only
replaces a dict found at the top level of "data"). The median measure flattens first and
handles the same payload.

Prints PASS / exits 0 when the unavailable mean surfaces as NaN, FAIL / exits 1 otherwise.
"""

import json
import sys

import numpy as np

from cr.cube.cube import Cube

FIXTURE = "/repo/tests/fixtures/numeric_arrays/num-arr-means-no-grouping.json"


def main():
    with open(FIXTURE) as f:
        response = json.load(f)
    mean = response["value"]["result"]["measures"]["mean"]
    assert mean["data"] == [[2.5, 25]]
    mean["data"] = [[2.5, {"?": -1}]]
    strand = Cube(response).partitions[0]
    try:
        means = strand.means
    except Exception as e:
        print("FAIL: _Strand.means raised %s: %s" % (type(e).__name__, e))
        print("      expected [2.5, nan]")
        return 1
    if np.allclose(means, [2.5, np.nan], equal_nan=True):
        print("PASS")
        return 0
    print("FAIL: observed %s expected [2.5, nan]" % (means,))
    return 1


if __name__ == "__main__":
    sys.exit(main())
