"""Probe D15 (C16/C06): the unconditional baseline of a 3-D partition is taken from `counts_with_missings[slice_idx]`,
but `slice_idx` counts VALID elements of the tabs dimension while counts_with_missings still contains its missing
elements: with a missing tabs category BEFORE a valid one the baseline of table k comes from another table.
Run: /venv/bin/python /verif/notes/probe_D15_baseline_slice_index.py   (development probe, not a check)"""
import copy, json
import numpy as np
from cr.cube.cube import Cube

d = json.load(open("/repo/tests/fixtures/cat-x-cat-x-cat-wgtd.json"))
r = d.get("value", d)["result"]
n = len(r["counts"])
rng = np.random.RandomState(7)
data = [int(x) for x in rng.randint(1, 60, size=n)]
r["counts"] = data
for m in r["measures"].values():
    m["data"] = [float(x) for x in data]
cats = r["dimensions"][0]["type"]["categories"]
base = Cube(copy.deepcopy(d))
ref = [p.column_index for p in base.partitions]
d2 = copy.deepcopy(d)
first_valid = next(i for i, c in enumerate(cats) if not c.get("missing"))
d2.get("value", d2)["result"]["dimensions"][0]["type"]["categories"][first_valid]["missing"] = True
got = [p.column_index for p in Cube(d2).partitions]
ok = all(np.allclose(g, ref[k + 1], equal_nan=True) for k, g in enumerate(got))
print("tables:", len(ref), "->", len(got))
print("column_index of every remaining table unchanged:", ok)
if not ok:
    print("observed table 0 row 0:", np.round(got[0][0], 2), "\nexpected           :", np.round(ref[1][0], 2))
    raise SystemExit(1)
