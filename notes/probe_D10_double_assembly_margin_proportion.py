import json, copy, numpy as np, warnings
warnings.simplefilter("ignore")
np.set_printoptions(precision=4, suppress=True, linewidth=150)
from cr.cube.cube import Cube
def load(n):
    d=json.load(open(f"/repo/tests/fixtures/{n}.json")); return d.get("value", d)
import glob
for name in ["mr-x-cat","mr-x-cat-hs","cat-x-mr"]:
    try:
        r=load(name)
    except Exception as e:
        print(name,"missing"); continue
    c=Cube(copy.deepcopy(r)); print(name, c.dimension_types)
    s0=c.partitions[0]
    dim = 1 if str(c.dimension_types[0]).endswith("MR_SUBVAR") else 0
    key = "columns_dimension" if dim==1 else "rows_dimension"
    ids=[e.element_id for e in c.dimensions[dim].valid_elements]
    prop = "columns_margin_proportion" if dim==1 else "rows_margin_proportion"
    print(" ids",ids)
    a=getattr(s0,prop); print(" base\n",a)
    tr={key:{"order":{"type":"explicit","element_ids":list(reversed(ids))}}}
    s1=Cube(copy.deepcopy(r),transforms=tr).partitions[0]
    try:
        b=getattr(s1,prop); print(" reversed\n",b)
        exp = a[:, ::-1] if dim==1 else a[::-1, :]
        print(" equals reindexed untransformed:", np.allclose(b,exp,equal_nan=True))
    except Exception as e: print(" EXC",type(e).__name__,e)
    tr={key:{"elements":{str(ids[0]):{"hide":True}}}}
    s2=Cube(copy.deepcopy(r),transforms=tr).partitions[0]
    try:
        b=getattr(s2,prop); print(" hidden first\n",b)
        exp = a[:, 1:] if dim==1 else a[1:, :]
        print(" equals:", b.shape==exp.shape and np.allclose(b,exp,equal_nan=True))
    except Exception as e: print(" EXC",type(e).__name__,e)
