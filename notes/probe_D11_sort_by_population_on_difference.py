import json, copy, numpy as np, warnings
warnings.simplefilter("ignore")
np.set_printoptions(precision=4, suppress=True, linewidth=150)
from cr.cube.cube import Cube
exec(open("/verif/notes/probe_D3_D4_D5_sharesum_pairwise_median.py").read().split("counts=np.array")[0])
counts=np.array([[3,9,5],[6,2,8],[1,7,9]],float)
r=resp(3,3,counts)
tr={"columns_dimension":{"insertions":[{"function":"subtotal","name":"C1-C2","anchor":"bottom","args":[1],"kwargs":{"positive":[1],"negative":[2]},"id":1}]},
    "rows_dimension":{"order":{"type":"opposing_insertion","insertion_id":1,"measure":"population","direction":"descending"}}}
s=Cube(r,transforms=tr,population=1000).partitions[0]
print(s.column_labels, s.row_order().tolist()); print(s.population_counts)
