import json, copy, numpy as np, warnings
warnings.simplefilter("ignore")
from cr.cube.cube import Cube
from cr.cube.enums import ORDER_FORMAT
exec(open("/verif/notes/probe_D3_D4_D5_sharesum_pairwise_median.py").read().split("counts=np.array")[0])
counts=np.array([[3,4,5],[6,7,8],[1,2,9]],float)
def mk(anchors):
    r=resp(3,3,counts)
    r["result"]["dimensions"][0]["references"]["view"]={"transform":{"insertions":[
        {"function":"subtotal","name":f"S{i}","anchor":a,"args":[1,2]} for i,a in enumerate(anchors)]}}
    return r
for anchors in ([3, 1, "top"], ["3", 1, "top"], [3, 1, "TOP"], [3,"1","Top"]):
    s=Cube(mk(anchors)).partitions[0]
    print(anchors, s.row_order(ORDER_FORMAT.BOGUS_IDS).tolist(), s.row_order().tolist(), s.row_labels.tolist(), s.row_codes.tolist())
