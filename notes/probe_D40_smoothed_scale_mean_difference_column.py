# encoding: utf-8

"""Pre-existing C20 deviation (unmodified library): invalid window, scale mean.

C20: "When ... w is below 2 or exceeds the number of periods, the unsmoothed values are
returned unchanged." For `smoothed_columns_scale_mean` this does not hold at an inserted
subtotal *difference* column (a wave difference) of the categorical-date columns
dimension: `columns_scale_mean` is NaN there, while `smoothed_columns_scale_mean`
(`_ScaleMeanSmoothed._proportions` takes the inserted columns from
`column_proportions.blocks[0][1]`, the wave-difference proportions, which sum to ~0 down
the column) returns a huge round-off quotient such as -7.9e15 -- with an invalid window
(nothing smoothed) as well as with a valid one.

Prints PASS / exits 0 if the two marginals agree for every invalid window, prints FAIL /
exits 1 otherwise.
"""

import sys
import warnings

import numpy as np

from cr.cube.cube import Cube

sys.path.insert(0, "/verif/seeded/C20j")  # the cube builder of the C20j seed demo
from demo import N_PERIODS, cube_response  # noqa: E402

warnings.simplefilter("ignore")

COLUMN_INSERTIONS = [
    {
        "function": "subtotal",
        "name": "first half",
        "args": [1, 2, 3],
        "anchor": "top",
        "kwargs": {},
    },
    {
        "function": "subtotal",
        "name": "wave 6 - wave 1",
        "args": [6],
        "anchor": "bottom",
        "kwargs": {"negative": [1]},
    },
]


def main():
    failures = []
    for window in (0, 1, N_PERIODS + 1, N_PERIODS + 5):
        transforms = {
            "columns_dimension": {
                "insertions": COLUMN_INSERTIONS,
                "smoother": {"function": "one_sided_moving_avg", "window": window},
            }
        }
        slice_ = Cube(cube_response(), transforms=transforms).partitions[0]
        unsmoothed = slice_.columns_scale_mean
        smoothed = slice_.smoothed_columns_scale_mean
        if not np.allclose(smoothed, unsmoothed, equal_nan=True):
            failures.append(
                "window=%d (invalid, nothing to smooth) columns %s\n"
                "      smoothed_columns_scale_mean %s\n"
                "      columns_scale_mean          %s"
                % (
                    window,
                    [str(label) for label in slice_.column_labels],
                    np.array2string(smoothed, precision=4),
                    np.array2string(unsmoothed, precision=4),
                )
            )
    if failures:
        print("FAIL: invalid window does not return the unsmoothed scale mean")
        for f in failures:
            print("  - " + f)
        return 1
    print("PASS: invalid window returns columns_scale_mean unchanged")
    return 0


if __name__ == "__main__":
    sys.exit(main())
