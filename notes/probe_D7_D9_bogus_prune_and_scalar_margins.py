import json, copy, numpy as np, warnings
warnings.simplefilter("ignore")
from cr.cube.cube import Cube
from cr.cube.enums import ORDER_FORMAT
exec(open("/verif/notes/probe_D3_D4_D5_sharesum_pairwise_median.py").read().split("counts=np.array")[0])
counts=np.array([[3,4,5],[6,7,8],[1,2,9]],float)
r=resp(3,3,counts,nvr=[1,2,5],nvc=[1,2,3])
s0=Cube(copy.deepcopy(r)).partitions[0]
s1=Cube(copy.deepcopy(r),transforms={"rows_dimension":{"elements":{"2":{"hide":True}}}}).partitions[0]
for p in ["columns_scale_mean_margin","columns_scale_median_margin","rows_scale_mean_margin","rows_scale_median_margin","table_base","table_margin","columns_scale_mean","columns_base","columns_margin","table_base_range"]:
    print(p, getattr(s0,p), getattr(s1,p))
# D7: bogus ids with prune_subtotals
z=np.zeros((3,3)); z[0,0]=0
r=resp(3,3,z)
tr={"rows_dimension":{"insertions":[{"function":"subtotal","name":"S","anchor":"top","args":[1,2],"id":1}]},"columns_dimension":{"prune":True}}
s=Cube(r,transforms=tr).partitions[0]
print(s.row_order().tolist())
try: print(s.row_order(ORDER_FORMAT.BOGUS_IDS).tolist())
except Exception as e: print("D7 EXC", type(e).__name__, e)
