"""D24 (C19): a transform that refers to the id of the MISSING element of a datetime dimension raised TypeError.

`_ElementIdShim.translate_element_id` (datetime branch) returned the element's "value" for a position id - for the missing
element that value is the dict {"?": -1}, which is then used as a dict key / set member (unhashable).  "References that
match nothing are ignored rather than raising."
Run: /venv/bin/python notes/probe_D24_datetime_missing_element_reference.py   (exit 0 = no exception, nothing hidden)
"""
import json
import sys

from cr.cube.cube import Cube

d = json.load(open("/repo/tests/fixtures/cat-x-datetime.json"))
d = d.get("value", d)
dim = d["result"]["dimensions"][1]
missing_ids = [e["id"] for e in dim["type"]["elements"] if e.get("missing")]
print("ids of missing datetime elements:", missing_ids)
ok = True
base = Cube(d).partitions[0].column_labels.tolist()
for ref in missing_ids + [str(i) for i in missing_ids]:
    for slot, t in (("hide", {"columns_dimension": {"elements": {ref: {"hide": True}}}}), ("explicit order", {"columns_dimension": {"order": {"type": "explicit", "element_ids": [ref]}}})):
        try:
            got = Cube(d, transforms=t).partitions[0].column_labels.tolist()
            if got != base:
                ok = False
                print(f"{slot} {ref!r}: labels changed {got}")
        except Exception as exc:  # noqa
            ok = False
            print(f"{slot} {ref!r}: raised {type(exc).__name__}: {exc}")
print("PASS" if ok and missing_ids else "FAIL")
sys.exit(0 if ok and missing_ids else 1)
