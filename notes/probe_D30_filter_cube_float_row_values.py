"""D30: CubeSet single-column filter cube on FLOAT-valued rows: augment_response admitted only int / str element values,
so every count of the padded filter cube was 0 (scenario 2 below; scenarios 1a/1b are the declined numeric-array-without-subreferences report).
Run: /venv/bin/python notes/probe_D30_filter_cube_float_row_values.py"""
# encoding: utf-8

"""Pre-existing C09 violations, observable on the UNMODIFIED worktree.

1. Numeric array whose measure metadata has no `subreferences` (fixture
   num-arr-means-no-grouping.json): every subvariable gets the element-id `None`.
   a. with an explicit order transform only ONE row is displayed, the other base row
      vanishes although it is neither hidden nor pruned;
   b. an explicit `"hide": true` on a subvariable (keyed by index or subvariable id) is
      silently ignored, the row stays visible.
2. CubeSet with a single-column filter cube on a numeric (float valued) rows variable:
   `Cube.augment_response` only re-positions int/str row values, so every count of the
   padded filter cube becomes 0 and, with pruning on, rows with a positive unweighted
   count in the response are pruned.

Prints one line per finding; exit 1 when at least one violation is observed.
"""

import copy
import json
import sys

from cr.cube.cube import Cube, CubeSet

FIXTURES = "/repo/tests/fixtures/numeric_arrays/"

with open(FIXTURES + "num-arr-means-no-grouping.json") as f:
    response = json.load(f)

violations = 0


def report(what, observed, expected):
    global violations
    ok = observed == expected
    violations += 0 if ok else 1
    print("%s %s\n      observed: %r\n      expected: %r" % (
        "ok       " if ok else "VIOLATION", what, observed, expected))


# --- 1a: explicit order on a numeric array without subreferences ---
transforms = {"rows_dimension": {"order": {"type": "explicit", "element_ids": [1, 0]}}}
strand = Cube(copy.deepcopy(response), transforms=transforms).partitions[0]
report(
    "1a numeric array w/o subreferences, explicit order: rows displayed (as a set)",
    sorted(strand.row_order().tolist()),
    [0, 1],
)

# --- 1b: explicit hide on a numeric array without subreferences ---
for key in ("0", "0001"):
    transforms = {"rows_dimension": {"elements": {key: {"hide": True}}}}
    strand = Cube(copy.deepcopy(response), transforms=transforms).partitions[0]
    report(
        "1b numeric array w/o subreferences, hide keyed by %r: rows displayed" % key,
        strand.row_order().tolist(),
        [1],
    )


# --- 2: padded single-column filter cube with float row values ---
def dimension(values):
    elements = [{"id": i, "missing": False, "value": v} for i, v in enumerate(values)]
    elements.append({"id": -1, "missing": True, "value": {"?": -1}})
    return {
        "references": {"alias": "v", "name": "v"},
        "type": {
            "class": "enum",
            "elements": elements,
            "subtype": {
                "class": "numeric",
                "missing_reasons": {"No Data": -1},
                "missing_rules": {},
            },
        },
    }


def cube_response(values, counts, single_col=False):
    result = {
        "counts": counts + [0],
        "measures": {"count": {"data": counts + [0]}},
        "dimensions": [dimension(values)],
        "n": sum(counts),
    }
    if single_col:
        result["is_single_col_cube"] = True
    return {"result": result}


prune = {"rows_dimension": {"prune": True}}
cube_set = CubeSet(
    [
        cube_response([1.5, 2.5, 3.5], [4, 5, 6]),
        cube_response([1.5, 3.5], [2, 3], single_col=True),
    ],
    [prune, prune],
    None,
    0,
)
filter_strand = cube_set.partition_sets[0][1]
report(
    "2  padded filter strand (float row values), prune on: (label, unweighted N)",
    list(zip(filter_strand.row_labels.tolist(), filter_strand.unweighted_counts.tolist())),
    [("1.5", 2.0), ("3.5", 3.0)],
)

sys.exit(1 if violations else 0)
