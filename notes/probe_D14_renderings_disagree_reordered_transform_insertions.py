import json, copy, numpy as np, warnings
warnings.simplefilter("ignore")
from cr.cube.cube import Cube
from cr.cube.enums import ORDER_FORMAT
exec(open("/verif/notes/probe_D3_D4_D5_sharesum_pairwise_median.py").read().split("counts=np.array")[0])
counts=np.array([[3,9,5],[6,2,8],[1,7,9]],float)
r=resp(3,3,counts)
A={"function":"subtotal","name":"A","anchor":1,"args":[1,2],"id":1}
B={"function":"subtotal","name":"B","anchor":3,"args":[2,3],"id":2}
r["result"]["dimensions"][0]["references"]["view"]={"transform":{"insertions":[A,B]}}
for label,tr in [("view only",{}),("transform same order",{"rows_dimension":{"insertions":[A,B]}}),("transform reversed",{"rows_dimension":{"insertions":[B,A]}})]:
    s=Cube(copy.deepcopy(r),transforms=copy.deepcopy(tr)).partitions[0]
    print(label, s.row_order().tolist(), s.row_order(ORDER_FORMAT.BOGUS_IDS).tolist(), s.row_labels.tolist(), s.row_codes.tolist())
