# encoding: utf-8

"""Possible pre-existing C14 violation (unmodified library), independent of the seeded change.

`_Slice.columns_scale_mean_margin` / `columns_scale_median_margin` decide whether "any row
has a numeric value" from the *displayed* rows (`_rows_dimension_numeric_values` walks
`_row_order_signed_indexes`), while the statistic itself is computed from all base rows
("hiding ... of rows does not change this overall statistic"). When every row that carries
a numeric value is hidden, the margin becomes None although `columns_scale_mean` is still
defined and the respondents are still counted.
"""

import sys

import numpy as np

from cr.cube.cube import Cube

ROW_CATS = ((1, "Low", 1, False), (2, "High", 5, False), (3, "Other", None, False))
COL_CATS = ((1, "A", None, False), (2, "B", None, False))
COUNTS = [[3, 4], [2, 6], [5, 1]]


def _dimension(alias, cats):
    return {
        "references": {"alias": alias, "name": alias},
        "type": {
            "class": "categorical",
            "ordinal": False,
            "categories": [
                {"id": i, "name": n, "numeric_value": v, "missing": m}
                for i, n, v, m in cats
            ],
        },
    }


def cube_response():
    flat = [c for row in COUNTS for c in row]
    return {
        "result": {
            "dimensions": [_dimension("rows", ROW_CATS), _dimension("cols", COL_CATS)],
            "measures": {
                "count": {
                    "data": flat,
                    "metadata": {
                        "derived": True,
                        "references": {},
                        "type": {"class": "numeric", "integer": True},
                    },
                    "n_missing": 0,
                }
            },
            "counts": flat,
            "n": sum(flat),
            "element": "crunch:cube",
            "missing": 0,
        }
    }


def main():
    plain = Cube(cube_response()).partitions[0]
    hidden = Cube(
        cube_response(),
        transforms={
            "rows_dimension": {"elements": {"1": {"hide": True}, "2": {"hide": True}}}
        },
    ).partitions[0]

    expected = np.mean(np.repeat([1.0, 5.0], [7, 8]))
    print("plain  margin:", plain.columns_scale_mean_margin, "expected", expected)
    print("hidden margin:", hidden.columns_scale_mean_margin, "expected", expected)
    print("hidden columns_scale_mean:", hidden.columns_scale_mean)
    ok = (
        hidden.columns_scale_mean_margin is not None
        and np.isclose(hidden.columns_scale_mean_margin, expected)
    )
    print("PASS" if ok else "FAIL")
    return 0 if ok else 1


if __name__ == "__main__":
    sys.exit(main())
