# encoding: utf-8

"""Pre-existing C20 violation on the UNMODIFIED library: window 0 is smoothed.

The property says a window below 2 returns the unsmoothed values unchanged. The
smoother resolves its window with `smoothing_dict.get("window") or 2`, so an explicit
`"window": 0` is falsy, silently becomes the default 2 and the values ARE smoothed
(no warning), whereas windows 1 and -1 are refused as expected.

Prints PASS / exits 0 when window 0 leaves the values unchanged, FAIL / exits 1
otherwise.
"""

import json
import sys
import warnings

import numpy as np

from cr.cube.cube import Cube

with open("/repo/tests/fixtures/cat-x-cat-date.json") as f:
    cube_dict = json.load(f)

warnings.simplefilter("ignore")
unsmoothed = Cube(cube_dict).partitions[0].column_percentages
failed = False
for window in (1, -1, 0):
    transforms = {
        "columns_dimension": {
            "smoother": {"function": "one_sided_moving_avg", "window": window}
        }
    }
    smoothed = Cube(cube_dict, transforms=transforms).partitions[0]
    observed = smoothed.smoothed_column_percentages
    unchanged = np.allclose(observed, unsmoothed, equal_nan=True)
    print("window %2d: unchanged=%s first row=%s" % (window, unchanged, observed[0]))
    if not unchanged:
        failed = True
        print("   expected first row (unsmoothed): %s" % unsmoothed[0])

print("FAIL" if failed else "PASS")
sys.exit(1 if failed else 0)
