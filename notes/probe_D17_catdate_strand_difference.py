"""Probe D17 (C17/C04): on a CATEGORICAL-DATE strand the population proportions are "all ones", built by
`np.repeat(1, shape)` - an INTEGER array.  `_Strand.population_proportions` then blanks the difference rows with NaN,
which an int array cannot hold: population_counts of a cat-date strand with a subtotal difference raises ValueError.
Run: /venv/bin/python /verif/notes/probe_D17_catdate_strand_difference.py   (development probe, not a check)"""
import json
import numpy as np
from cr.cube.cube import Cube

d = json.load(open("/repo/tests/fixtures/cat-date.json"))
cats = [c["id"] for c in d.get("value", d)["result"]["dimensions"][0]["type"]["categories"] if not c.get("missing")]
ins = [{"function": "subtotal", "name": "diff", "anchor": "bottom", "args": [cats[0]], "kwargs": {"positive": [cats[0]], "negative": [cats[1]]}}]
s = Cube(d, transforms={"rows_dimension": {"insertions": ins}}, population=1000).partitions[0]
try:
    pc = s.population_counts
except ValueError as e:
    print("FAIL: ValueError:", e)
    raise SystemExit(1)
ok = bool(np.isnan(pc[list(s.diff_row_idxs)]).all()) and not np.isnan(np.delete(pc, list(s.diff_row_idxs))).any()
print("PASS" if ok else "FAIL", pc)
raise SystemExit(0 if ok else 1)
