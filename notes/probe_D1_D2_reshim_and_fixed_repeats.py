import json, copy, numpy as np, warnings
warnings.simplefilter("ignore")
from cr.cube.cube import Cube
def load(n): return json.load(open(f"/repo/tests/fixtures/{n}.json"))

# --- 1. reshim of stale id on array dimension
r = load("cat-x-mr")
tr = {"columns_dimension": {"order": {"type": "explicit", "element_ids": ["nope", 2, 1]}}}
c = Cube(r, transforms=tr)
s = c.partitions[0]
print("1a", s.column_labels.tolist(), tr)
try:
    c2 = Cube(r, transforms=tr)
    print("1b", c2.partitions[0].column_labels.tolist())
except Exception as e:
    print("1b EXC", type(e).__name__, e)

# --- 2. fixed list with repeats in sort-by-value
r = load("cat-4-x-cat-5")
tr = {"rows_dimension": {"order": {"type": "marginal", "marginal":"weighted_base", "direction":"descending", "fixed": {"top": [1, 1], "bottom":[1]}}}}
s = Cube(r, transforms=tr).partitions[0]
print("2", s.row_order().tolist(), s.shape, s.row_labels.tolist())
