# encoding: utf-8

"""Pre-existing C11 violation (present on the UNMODIFIED library).

A weighted CAT x CAT cube with an "All" subtotal (every category is an addend) on both
dimensions. At the intersection of the two subtotals the table proportion is 1 and the
table base is perfectly well defined, so variance / std-dev / std-err / MoE must all be
0 (never negative, and NaN only where proportion or base is undefined). Because
`Ni = Nt - Np - Nn` is computed from float sums accumulated in different orders it
comes out as -1 ulp instead of 0, the three-term variance becomes about -1e-16 and
sqrt() turns std-dev, std-err and MoE into NaN.

Prints FAIL / exit 1 when the violation is observed, PASS / exit 0 otherwise.
"""

import sys
import warnings

import numpy as np

sys.path.insert(0, "/tmp/seed_out/C11g")
import demo  # noqa: E402  (re-uses the inline cube-response builder)

from cr.cube.cube import Cube  # noqa: E402

warnings.simplefilter("ignore")

ALL = {"function": "subtotal", "args": [1, 2, 3], "anchor": "bottom", "name": "All"}
TRANSFORMS = {
    "rows_dimension": {"insertions": [ALL]},
    "columns_dimension": {"insertions": [ALL]},
}


def main():
    rng = np.random.default_rng(0)
    for attempt in range(50):
        demo.WEIGHTED = rng.random((3, 3))
        slice_ = Cube(demo.cube_response(), transforms=TRANSFORMS).partitions[0]
        p = slice_.table_proportions[-1, -1]
        base = slice_.table_weighted_bases[-1, -1]
        var = slice_.table_proportion_variances[-1, -1]
        sd = slice_.table_std_dev[-1, -1]
        se = slice_.table_std_err[-1, -1]
        moe = slice_.table_proportions_moe[-1, -1]
        if var < 0 or np.isnan(sd) or np.isnan(se) or np.isnan(moe):
            print("FAIL")
            print("weighted counts:\n%r" % demo.WEIGHTED)
            print("All x All cell: table proportion=%r, weighted base=%r" % (p, base))
            print(
                "observed variance=%r std_dev=%r std_err=%r moe=%r" % (var, sd, se, moe)
            )
            print("expected variance=0.0 std_dev=0.0 std_err=0.0 moe=0.0")
            return 1
    print("PASS")
    return 0


if __name__ == "__main__":
    sys.exit(main())
