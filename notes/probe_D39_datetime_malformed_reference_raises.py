import copy, json
from cr.cube.cube import Cube
F="/repo/tests/fixtures/"
def load(n): return json.load(open(F+n))
def cols(r,t):
    try: return Cube(copy.deepcopy(r),transforms=copy.deepcopy(t)).partitions[0].column_labels.tolist()
    except Exception as e: return "raised %s: %s"%(type(e).__name__,e)
def rows(r,t):
    try: return Cube(copy.deepcopy(r),transforms=copy.deepcopy(t)).partitions[0].row_labels.tolist()
    except Exception as e: return "raised %s: %s"%(type(e).__name__,e)
D=load("cat-x-datetime.json")
vals=list(Cube(D).dimensions[1].element_ids)
for bad in ("²","½",[1],{"a":1}):
    print("dt", bad, cols(D,{"columns_dimension":{"order":{"type":"explicit","element_ids":[bad]+vals[::-1]}}}))
# CAT dimension (rows) with unhashable
ids=list(Cube(D).dimensions[0].element_ids)
for bad in ([1],{"a":1}):
    print("cat", bad, rows(D,{"rows_dimension":{"order":{"type":"explicit","element_ids":[bad]+ids[::-1]}}}))
M=load("cat-x-mr.json")
for bad in ([1],{"a":1}):
    print("mr", bad, cols(M,{"columns_dimension":{"order":{"type":"explicit","element_ids":[bad]}}}))
