# encoding: utf-8

"""Pre-existing (unmodified library) violation of C18: `Cube.inflate()` is not idempotent.

`Cube.inflate()` is a public method; it inserts a synthetic rows-dimension into the
caller's *dict* response in place and returns a new Cube on that same dict. A second
cube built from the already-used dict and inflated again gets a second synthetic
dimension (ndim 2), whereas a fresh evaluation on a pristine copy - or the same response
supplied as JSON text, which is re-parsed each time - gives ndim 1. `CubeSet` only avoids
this because its `_is_numeric_measure` test happens to turn False on the second pass.

Run with:  /venv/bin/python notes/probe_D29_inflate_edits_callers_response.py
Prints PASS / exit 0 if the property holds, FAIL / exit 1 if the violation shows.
"""

import copy
import json
import os
import sys

import cr.cube
from cr.cube.cube import Cube

worktree = os.path.abspath(cr.cube.__file__).split("/src/cr/cube")[0]
pristine = json.load(
    open(os.path.join(worktree, "tests", "fixtures", "econ-mean-no-dims.json"))
)


def describe(cube):
    return (cube.ndim, tuple(dt.name for dt in cube.dimension_types))


fresh = describe(Cube(copy.deepcopy(pristine)).inflate())

shared = copy.deepcopy(pristine)
first = describe(Cube(shared).inflate())
second = describe(Cube(shared).inflate())  # --- same dict, used before ---

text = json.dumps(pristine)
first_json = describe(Cube(text).inflate())
second_json = describe(Cube(text).inflate())

print("fresh evaluation        :", fresh)
print("dict, 1st / 2nd inflate :", first, "/", second)
print("JSON, 1st / 2nd inflate :", first_json, "/", second_json)

if first == second == first_json == second_json == fresh:
    print("PASS")
    sys.exit(0)
print("FAIL: a response dict that was inflated before gives a different cube than a fresh copy")
sys.exit(1)
