# encoding: utf-8

"""Pre-existing C01 violation (unmodified library): means of a CA-as-0th strand.

A categorical-array cube (CA_SUBVAR x CA_CAT) that carries a mean measure, used as the
rows-variable cube of a multi-cube set (cube_idx=0), is partitioned "CA-as-0th" into one
1-D _Strand per subvariable. The strand's counts are sliced to its subvariable
(stripe/cubemeasure.py::_BaseCubeCounts.factory does `counts[slice_idx]`), but the
mean / sum / stddev / median factories of the same module ignore `ca_as_0th` and
`slice_idx` and hand the whole 2-D (subvars x categories) array to the 1-D measure, so
`_Strand.means` cannot report the value the response carries for its cells: it raises a
(misleading) "cube-result without a mean measure" ValueError.
"""

import copy
import json
import sys

import numpy as np

from cr.cube.cube import Cube, CubeSet

FIXTURE = "/repo/tests/fixtures/ca-subvar-x-ca-cat-mean.json"


def main():
    with open(FIXTURE) as f:
        resp = json.load(f)

    # --- the values the response carries: (subvar, category) -> mean ---
    expected = Cube(copy.deepcopy(resp)).partitions[0].means  # 2-D slice, 3 x 5

    cube_set = CubeSet([resp, copy.deepcopy(resp)], [{}, {}], 1000, 0)
    assert cube_set.is_ca_as_0th
    strands = Cube(resp, cube_idx=0).partitions
    strands = (cube_set.partition_sets[0][0],) + tuple(strands[1:])

    failures = []
    for idx, strand in enumerate(strands):
        try:
            observed = np.asarray(strand.means)
        except Exception as e:  # noqa
            failures.append((idx, "%s: %s" % (type(e).__name__, e), expected[idx]))
            continue
        if observed.shape != expected[idx].shape or not np.allclose(
            observed, expected[idx], equal_nan=True
        ):
            failures.append((idx, observed, expected[idx]))

    if failures:
        print("FAIL")
        for idx, observed, exp in failures:
            print(
                "  strand of subvariable #%d (counts %s): .means gives %s, the "
                "response carries %s" % (idx, strands[idx].counts, observed, exp)
            )
        return 1
    print("PASS")
    return 0


if __name__ == "__main__":
    sys.exit(main())
