import json, copy, numpy as np, warnings
warnings.simplefilter("ignore")
np.set_printoptions(precision=4, suppress=True, linewidth=150)
from cr.cube.cube import Cube
def catdim(alias, n, nv=None):
    cats=[{"id":i+1,"name":f"{alias}{i+1}","missing":False,"numeric_value":(nv[i] if nv else None)} for i in range(n)]
    cats.append({"id":-1,"name":"No Data","missing":True,"numeric_value":None})
    return {"references":{"alias":alias,"name":alias},"type":{"class":"categorical","categories":cats,"ordinal":False}}
def resp(nr,nc,counts,measures=None,nvr=None,nvc=None):
    full=np.zeros((nr+1,nc+1)); full[:nr,:nc]=counts
    m={"count":{"data":full.flatten().tolist(),"n_missing":0,"metadata":{}}}
    for k,v in (measures or {}).items():
        f=np.zeros((nr+1,nc+1)); f[:nr,:nc]=v
        m[k]={"data":f.flatten().tolist(),"n_missing":0,"metadata":{}}
    return {"result":{"dimensions":[catdim("r",nr,nvr),catdim("c",nc,nvc)],"counts":full.flatten().tolist(),"measures":m,"n":int(full.sum()),"missing":0,"filtered":{"weighted_n":1,"unweighted_n":1},"unfiltered":{"weighted_n":1,"unweighted_n":1}}}
counts=np.array([[3,4,5],[6,7,8],[1,2,9]],float)
sums=np.array([[1,2,3],[4,5,6],[7,8,10]],float)
r=resp(3,3,counts,{"sum":sums})
tr={"rows_dimension":{"insertions":[{"function":"subtotal","name":"R12","anchor":"bottom","args":[1,2],"id":1}]},
    "columns_dimension":{"insertions":[{"function":"subtotal","name":"C12","anchor":"bottom","args":[1,2],"id":1}]}}
s=Cube(r,transforms=tr).partitions[0]
print("sums\n",s.sums)
print("col share\n",s.column_share_sum)
print("row share\n",s.row_share_sum)
print("tot share\n",s.total_share_sum)
# D5 median
counts=np.array([[1,0,1],[2,2,2]],float)
r=resp(2,3,counts,nvc=[1,2,3])
s=Cube(r).partitions[0]
print("rows_scale_median", s.rows_scale_median, "expected [2, 2]")
# D4 legacy pairwise with squared weights
counts=np.array([[30,40,50],[60,70,80]],float)
w=counts*1.5; sq=counts*3.0
r=resp(2,3,counts,{"weighted_squared_count":sq}); 
full=np.zeros((3,4)); full[:2,:3]=w; r["result"]["measures"]["count"]["data"]=full.flatten().tolist()
s=Cube(r).partitions[0]
print("new t", s.pairwise_significance_t_stats(0))
print("legacy t", s.pairwise_significance_tests[0].t_stats)
