import json, copy, numpy as np, warnings
warnings.simplefilter("ignore")
np.set_printoptions(precision=4, suppress=True, linewidth=150)
from cr.cube.cube import Cube
exec(open("/verif/notes/probe_D3_D4_D5_sharesum_pairwise_median.py").read().split("counts=np.array")[0])
counts=np.array([[3,9,5],[6,2,8],[1,7,9]],float)
def mk(neg, pos):
    r=resp(3,3,counts)
    for i,c in enumerate(r["result"]["dimensions"][0]["type"]["categories"][:3]): c["date"]=f"2020-0{i+1}"
    tr={"rows_dimension":{"insertions":[{"function":"subtotal","name":"d","anchor":"bottom","args":pos,"kwargs":{"positive":pos,"negative":neg},"id":1}]}}
    return Cube(r,transforms=tr).partitions[0]
for neg,pos in [([1],[2,3]),([2],[1,3]),([3],[1,2])]:
    s=mk(neg,pos)
    print("neg",neg,"pos",pos,s.rows_dimension_type, "col% diff row:", s.column_proportions[-1], "row% diff row:", s.row_proportions[-1])
