"""D18 (C05): hiding a non-empty row changed `columns_scale_mean_pairwise_indices` and the scale-mean t statistics.

`_ColumnPairwiseSignificance.t_stats_scale_means` / `._two_sample_df` summed the ASSEMBLED `slice.counts` over the displayed
rows that have a numeric value, and `_Slice._columns_scale_mean_variance` did the same - while `columns_scale_mean` is
computed from the base blocks (hidden rows included).  Hiding a row therefore changed N and the variance but not the mean.
Run: /venv/bin/python notes/probe_D18_scale_mean_pairwise_hidden_row.py   (exit 0 = output independent of hiding)
"""
import json
import sys

import numpy as np

from cr.cube.cube import Cube

FIX = "/repo/tests/fixtures/cat-hs-x-cat-date.json"
d = json.load(open(FIX))
base = Cube(d).partitions[0]
hid = Cube(d, transforms={"rows_dimension": {"elements": {"1": {"hide": True}}}}).partitions[0]
a = base.pairwise_significance_tests[0].t_stats_scale_means
b = hid.pairwise_significance_tests[0].t_stats_scale_means
print("t (no transform):", np.round(a, 4))
print("t (row 1 hidden):", np.round(b, 4))
print("indices:", base.columns_scale_mean_pairwise_indices, "->", hid.columns_scale_mean_pairwise_indices)
ok = np.allclose(a, b, equal_nan=True) and base.columns_scale_mean_pairwise_indices == hid.columns_scale_mean_pairwise_indices
print("PASS" if ok else "FAIL")
sys.exit(0 if ok else 1)
