# encoding: utf-8

"""C04: violations already present in the UNMODIFIED library (not caused by the patch).

1. 2-D slice, UNWEIGHTED response carrying valid counts for a numeric measure (only
   `valid_count_unweighted`, no `valid_count_weighted`): the count of a difference
   subtotal must be NaN ("in a response that carries valid counts for a numeric measure
   a difference's count is NaN instead"). `_Slice.unweighted_counts` is NaN, but
   `_Slice.counts` (and everything derived from it, e.g. table_proportions) shows
   addends - subtrahends, because `CubeMeasures.weighted_cube_counts` decides
   `diff_nans` from `cube.weighted_valid_counts` only, while the counts it then falls
   back to (`cube.counts`) ARE the unweighted valid counts.

2. (secondary, wording-dependent) 2-D slice with a categorical-date columns dimension:
   a difference with several terms on one side is NaN in column- and row-proportions but
   `table_proportions` still reports (sum addends - sum subtrahends) / N, whereas the
   1-D strand reports NaN for the very same insertion ("NaN in every proportion").

Prints FAIL and exits 1 when a violation is observed (that is the case today).
"""

import json
import os
import sys

import numpy as np

from cr.cube.cube import Cube

FIXTURES = "/repo/tests/fixtures"


def _load(name):
    with open(os.path.join(FIXTURES, name)) as f:
        return json.load(f)


def check_valid_counts_difference(failures):
    response = _load("mean-cat-x-cat.json")
    measures = response["result"]["measures"]
    assert "valid_count_unweighted" in measures and "valid_count_weighted" not in measures
    transforms = {
        "rows_dimension": {
            "insertions": [
                {
                    "function": "subtotal",
                    "name": "D",
                    "anchor": "top",
                    "args": [1],
                    "kwargs": {"positive": [1], "negative": [2]},
                }
            ]
        }
    }
    slice_ = Cube(response, transforms=transforms).partitions[0]
    assert slice_.diff_row_idxs == (0,)
    for name in ("unweighted_counts", "counts", "table_proportions"):
        row = getattr(slice_, name)[0]
        if not np.all(np.isnan(row)):
            failures.append(
                "valid-counts response, difference row, %s: observed %s, expected all NaN"
                % (name, row.tolist())
            )


def check_cat_date_multi_term_difference(failures):
    response = _load("cat-hs-x-cat-date.json")
    insertion = {
        "function": "subtotal",
        "name": "D2",
        "anchor": "top",
        "args": [1, 2],
        "kwargs": {"positive": [1, 2], "negative": [3]},
    }
    slice_ = Cube(
        response,
        transforms={
            "rows_dimension": {"insertions": []},
            "columns_dimension": {"insertions": [insertion]},
        },
    ).partitions[0]
    assert slice_.diff_column_idxs == (0,)
    for name in ("column_proportions", "row_proportions", "table_proportions"):
        column = getattr(slice_, name)[:, 0]
        if not np.all(np.isnan(column)):
            failures.append(
                "cat-date columns, (1+2)-3 difference, %s: observed %s, expected all NaN"
                % (name, np.round(column, 4).tolist())
            )


def main():
    failures = []
    check_valid_counts_difference(failures)
    check_cat_date_multi_term_difference(failures)
    if failures:
        print("FAIL")
        for failure in failures:
            print("  " + failure)
        return 1
    print("PASS")
    return 0


if __name__ == "__main__":
    sys.exit(main())
