# encoding: utf-8
"""Pre-existing (unmodified library) discrepancy on the legacy pairwise path.

For a weighted MR x CAT slice with the `weighted_squared_count` measure,
`_Slice.pairwise_significance_tests[i].t_stats` (legacy measures package) disagrees
with `_Slice.pairwise_significance_t_stats(i)` for every MR row but the first: the
legacy code divides the per-row weighted column base by `_Slice.columns_squared_base`,
which for MR rows is just the FIRST subvariable's squared base repeated.
Prints PASS when both paths agree, FAIL otherwise.
"""
import importlib.util
import sys

import numpy as np

from cr.cube.cube import Cube

spec = importlib.util.spec_from_file_location("c13demo", "/verif/seeded/C13h/demo.py")
demo = importlib.util.module_from_spec(spec)
spec.loader.exec_module(demo)

slice_ = Cube(demo._cube_response()).partitions[0]
bad = []
for i in range(3):
    new = np.asarray(slice_.pairwise_significance_t_stats(i), dtype=float)
    legacy = np.asarray(slice_.pairwise_significance_tests[i].t_stats, dtype=float)
    if not np.allclose(new, legacy):
        bad.append((i, new, legacy))
if bad:
    print("FAIL: legacy t_stats differ from the effective-base t_stats")
    for i, new, legacy in bad:
        print("selected column", i, "\n expected (matrix path):\n", new)
        print(" observed (legacy path):\n", legacy)
    print("columns_squared_base:", slice_.columns_squared_base)
    sys.exit(1)
print("PASS")
