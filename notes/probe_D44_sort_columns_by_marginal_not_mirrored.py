"""Pre-existing violations of C10 on the UNMODIFIED library (independent of patch.diff).

"... with insertions, differences and transforms mirrored on the exchanged dimensions":
two sort-by-value transforms are honoured on the rows dimension but silently ignored
(payload order) when mirrored onto the columns dimension of the transposed response.

1. order type "marginal" (e.g. by weighted_base): `_BaseOrderHelper.column_display_order`
   has no marginal helper, `row_display_order` has `_SortRowsByMarginalHelper`.
2. order type "opposing_insertion" naming a *derived* MR element (an MR insertion) of
   the opposing dimension: rows get `_SortRowsByDerivedColumnHelper`, columns fall into
   `_SortColumnsByInsertedRowHelper`, whose lookup raises ValueError -> payload order.

Prints FAIL / exits 1 when a violation is observed, PASS / exits 0 otherwise.
"""

import copy
import json
import sys

import numpy as np

from cr.cube.cube import Cube


def cat_dim(alias, names):
    return {
        "references": {"alias": alias, "name": alias},
        "type": {
            "class": "categorical",
            "ordinal": False,
            "categories": [
                {"id": i + 1, "missing": False, "name": n, "numeric_value": i + 1}
                for i, n in enumerate(names)
            ],
        },
    }


def response(dimensions, counts):
    flat = [int(c) for c in np.asarray(counts).flatten()]
    return {
        "result": {
            "dimensions": dimensions,
            "counts": flat,
            "measures": {"count": {"data": flat, "n_missing": 0, "metadata": {}}},
            "missing": 0,
            "n": sum(flat),
        }
    }


def marginal_sort_case():
    rows = cat_dim("size", ["S", "M", "L"])
    cols = cat_dim("color", ["red", "green", "blue", "black"])
    counts = np.array([[5, 1, 2, 1], [9, 9, 9, 9], [3, 4, 5, 6]])
    order = {"type": "marginal", "marginal": "weighted_base", "direction": "descending"}
    a = Cube(
        response([rows, cols], counts), transforms={"rows_dimension": {"order": order}}
    ).partitions[0]
    b = Cube(
        response([cols, rows], counts.T),
        transforms={"columns_dimension": {"order": order}},
    ).partitions[0]
    ok = a.row_labels.tolist() == b.column_labels.tolist() and np.allclose(
        a.counts, b.counts.T
    )
    return ok, (
        "sort by marginal weighted_base, descending\n"
        "   rows of size x color        : %s margin %s\n"
        "   columns of color x size     : %s margin %s   (expected the same order)"
        % (
            a.row_labels.tolist(),
            a.rows_margin.tolist(),
            b.column_labels.tolist(),
            b.columns_margin.tolist(),
        )
    )


def derived_insertion_sort_case():
    path = "/repo/tests/fixtures/mr_insertions/cat-x-mr.json"
    resp = json.load(open(path))
    # --- transposed response: (MR_SUBVAR, MR_CAT) pair first, then the CAT dimension ---
    tr = copy.deepcopy(resp)
    result = tr.get("value", tr)["result"]
    dims = result["dimensions"]
    shape = tuple(
        len(d["type"].get("categories", d["type"].get("elements"))) for d in dims
    )
    perm = (1, 2, 0)

    def t(flat):
        arr = np.array(flat, dtype=object).reshape(shape)
        return np.transpose(arr, perm).flatten().tolist()

    result["dimensions"] = [dims[i] for i in perm]
    result["counts"] = t(result["counts"])
    for m in result["measures"].values():
        m["data"] = t(m["data"])

    order = {
        "type": "opposing_insertion",
        "insertion_id": "A_B",
        "measure": "count_weighted",
        "direction": "ascending",
    }
    a = Cube(resp, transforms={"rows_dimension": {"order": order}}).partitions[0]
    b = Cube(tr, transforms={"columns_dimension": {"order": order}}).partitions[0]
    ok = a.row_labels.tolist() == b.column_labels.tolist() and np.allclose(
        a.counts, b.counts.T
    )
    return ok, (
        "sort by the derived MR element 'A_B' of the opposing dimension, ascending\n"
        "   rows of CAT x MR            : %s 'A&B' counts %s\n"
        "   columns of MR x CAT         : %s 'A&B' counts %s   (expected the same order)"
        % (
            a.row_labels.tolist(),
            a.counts[:, 0].tolist(),
            b.column_labels.tolist(),
            b.counts[0, :].tolist(),
        )
    )


def main():
    failed = False
    for case in (marginal_sort_case, derived_insertion_sort_case):
        ok, text = case()
        print(("ok:   " if ok else "FAIL: ") + text)
        failed = failed or not ok
    print("FAIL" if failed else "PASS")
    return 1 if failed else 0


if __name__ == "__main__":
    sys.exit(main())
