"""Pre-existing C13 violation (unmodified library): a missing MR subvariable misaligns
the overlap matrices used by the overlap-corrected pairwise test.

`Cube.overlaps` / `Cube.valid_overlaps` restrict the cube dimensions to their valid
elements (`raw_cube_array[self._valid_idxs]`) but the extra trailing "subvariables" axis
that the overlap measures carry is left whole. `_PairwiseSignificaneBetweenSubvariablesHelper`
then reads `bases[row, a, a]`, `bases[row, b, b]`, `bases[row, a, b]` with a, b counted
over the *valid* subvariables: as soon as one subvariable of the columns MR is flagged
`missing` the middle axis is compacted while the last one is not, so the "diagonal" and
the "pair" cells are read from the wrong subvariables.

Scenario: tests/fixtures/overlaps/cat-x-mr-realistic-example.json (CAT x MR, 6 subvars),
same response with the first subvariable flagged `"missing": true`. Dropping a column
cannot change the test between two *other* columns (their proportions, bases and
overlaps are untouched), so the t-stats of the remaining 5 columns must equal the
corresponding 5x5 sub-block of the original, and must stay antisymmetric.
"""

import copy
import json
import sys

import numpy as np

from cr.cube.cube import Cube

FIXTURE = "/repo/tests/fixtures/overlaps/cat-x-mr-realistic-example.json"


def main():
    with open(FIXTURE) as f:
        response = json.load(f)
    full = Cube(response).partitions[0]

    reduced_response = copy.deepcopy(response)
    subvars = reduced_response["value"]["result"]["dimensions"][1]["type"]["elements"]
    subvars[0]["missing"] = True
    reduced = Cube(reduced_response).partitions[0]

    problems = []
    ncols = reduced.shape[1]
    if not np.allclose(
        reduced.column_proportions, full.column_proportions[:, 1:], equal_nan=True
    ):
        problems.append("column proportions of the remaining subvariables changed")

    t_by_sel = [reduced.pairwise_significance_t_stats(a) for a in range(ncols)]
    for a in range(ncols):
        expected = full.pairwise_significance_t_stats(a + 1)[:, 1:]
        if not np.allclose(t_by_sel[a], expected, equal_nan=True):
            problems.append(
                "t-stats vs remaining column %d\n  observed %s\n  expected %s"
                % (a, t_by_sel[a].tolist(), expected.tolist())
            )
        for b in range(ncols):
            tab, tba = t_by_sel[a][:, b], t_by_sel[b][:, a]
            if not np.allclose(tab, -tba, equal_nan=True):
                problems.append(
                    "t not antisymmetric for columns (%d, %d): %s vs %s"
                    % (a, b, tab.tolist(), tba.tolist())
                )

    if problems:
        print("FAIL")
        for p in problems:
            print(p)
        return 1
    print("PASS")
    return 0


if __name__ == "__main__":
    sys.exit(main())
