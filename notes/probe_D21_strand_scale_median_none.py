# encoding: utf-8

"""Pre-existing C14 violation (unmodified library): strand without valued respondents.

A univariate CAT strand whose categories do carry numeric values, but whose only
respondents are in the category WITHOUT a numeric value. The property says every scale
statistic of such a strand is None. `scale_mean`, `scale_std_dev` and `scale_std_err` are
None, but `scale_median` is NaN (np.median of an empty array, plus a RuntimeWarning).

Prints PASS / exits 0 when all four are None, FAIL / exits 1 otherwise.
"""

import sys
import warnings

from cr.cube.cube import Cube

CATS = ((1, "Low", 1), (2, "High", 5), (3, "No opinion", None))
COUNTS = [0, 0, 7, 0]  # --- last one is "No Data" (missing) ---

response = {
    "query": {
        "dimensions": [{"variable": "A"}],
        "measures": {"count": {"function": "cube_count", "args": []}},
        "weight": None,
    },
    "result": {
        "counts": COUNTS,
        "dimensions": [
            {
                "derived": False,
                "references": {"alias": "A", "name": "A", "description": ""},
                "type": {
                    "class": "categorical",
                    "ordinal": False,
                    "categories": [
                        {"id": i, "name": n, "missing": False, "numeric_value": v}
                        for i, n, v in CATS
                    ]
                    + [
                        {
                            "id": -1,
                            "name": "No Data",
                            "missing": True,
                            "numeric_value": None,
                        }
                    ],
                },
            }
        ],
        "element": "crunch:cube",
        "filtered": {"unweighted_n": 7, "weighted_n": 7},
        "unfiltered": {"unweighted_n": 7, "weighted_n": 7},
        "measures": {
            "count": {
                "data": COUNTS,
                "metadata": {
                    "derived": True,
                    "references": {},
                    "type": {"class": "numeric", "integer": True},
                },
                "n_missing": 0,
            }
        },
        "missing": 0,
        "n": 7,
    },
}

with warnings.catch_warnings():
    warnings.simplefilter("ignore")
    strand = Cube(response).partitions[0]
    observed = {
        "scale_mean": strand.scale_mean,
        "scale_median": strand.scale_median,
        "scale_std_dev": strand.scale_std_dev,
        "scale_std_err": strand.scale_std_err,
    }

bad = {k: v for k, v in observed.items() if v is not None}
if bad:
    print("FAIL")
    for k, v in observed.items():
        print("  %s: observed %r, expected None" % (k, v))
    sys.exit(1)
print("PASS")
