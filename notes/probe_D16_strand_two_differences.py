"""Probe D16 (C17/C04): _Strand.population_proportions blanks the difference rows with
`population_proportions[self.diff_row_idxs] = np.nan`; diff_row_idxs is a TUPLE, which numpy reads as a
multi-dimensional index: one difference works, two raise IndexError (population_counts of the strand is unusable).
Run: /venv/bin/python /verif/notes/probe_D16_strand_two_differences.py   (development probe, not a check)"""
import json
import numpy as np
from cr.cube.cube import Cube

d = json.load(open("/repo/tests/fixtures/univariate-categorical.json"))
cats = [c["id"] for c in d.get("value", d)["result"]["dimensions"][0]["type"]["categories"] if not c.get("missing")]
ins = [
    {"function": "subtotal", "name": "d1", "anchor": "bottom", "args": [cats[0]], "kwargs": {"positive": [cats[0]], "negative": [cats[1]]}},
    {"function": "subtotal", "name": "d2", "anchor": "bottom", "args": [cats[1]], "kwargs": {"positive": [cats[1]], "negative": [cats[0]]}},
]
t = {"rows_dimension": {"insertions": ins}}
s = Cube(d, transforms=t, population=1000).partitions[0]
print("diff_row_idxs:", s.diff_row_idxs)
try:
    pc = s.population_counts
except IndexError as e:
    print("FAIL: IndexError:", e)
    raise SystemExit(1)
ok = bool(np.all(np.isnan(pc[list(s.diff_row_idxs)]))) and not np.any(np.isnan(np.delete(pc, list(s.diff_row_idxs))))
print("PASS" if ok else "FAIL", pc)
raise SystemExit(0 if ok else 1)
