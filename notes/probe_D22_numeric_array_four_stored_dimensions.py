# encoding: utf-8

"""Pre-existing C06 violation (unmodified library): NUM_ARRAY x CAT x MR cube.

A cube of the mean of a numeric array, grouped by a categorical and a multiple-response
variable, has four stored dimensions (CAT, MR_SUBVAR, MR_CAT, NUM_ARRAY-last). For that
length `Dimensions.dimension_order` returns the plain reverse (3, 2, 1, 0), so the flat
payload is reshaped as (MR_CAT, MR_SUBVAR, CAT, NUM_ARRAY) instead of
(CAT, MR_SUBVAR, MR_CAT, NUM_ARRAY). Partition k (numeric-array item k) is therefore NOT
the CAT x MR table of that item: the values are silently scrambled.

Prints PASS / exits 0 when partition k equals the expected CAT x MR means, otherwise
prints FAIL with observed vs expected and exits 1 (this is what happens at HEAD).
"""

import sys

import numpy as np

from cr.cube.cube import Cube


def cat(alias, names):
    cats = [
        {"id": i + 1, "name": n, "missing": False, "numeric_value": None}
        for i, n in enumerate(names)
    ]
    cats.append({"id": -1, "name": "No Data", "missing": True, "numeric_value": None})
    return {
        "references": {"alias": alias, "name": alias},
        "derived": False,
        "type": {"ordinal": False, "class": "categorical", "categories": cats},
    }


def mr(alias, subs):
    refs = {
        "alias": alias,
        "name": alias,
        "subreferences": [{"alias": s, "name": s} for s in subs],
    }
    subvars = {
        "references": refs,
        "derived": True,
        "type": {
            "class": "enum",
            "subtype": {"class": "variable"},
            "elements": [
                {
                    "id": i + 1,
                    "missing": False,
                    "value": {
                        "id": s,
                        "derived": False,
                        "references": {"alias": s, "name": s},
                    },
                }
                for i, s in enumerate(subs)
            ],
        },
    }
    selections = {
        "references": refs,
        "derived": True,
        "type": {
            "class": "categorical",
            "ordinal": False,
            "categories": [
                {"id": 1, "name": "Selected", "missing": False, "selected": True,
                 "numeric_value": 1},
                {"id": 0, "name": "Other", "missing": False, "numeric_value": 0},
                {"id": -1, "name": "No Data", "missing": True, "numeric_value": None},
            ],
        },
    }
    return [subvars, selections]


def meta(subs):
    return {
        "references": {
            "alias": "Movies",
            "name": "Movies",
            "subreferences": [{"alias": s, "name": s} for s in subs],
        },
        "derived": True,
        "type": {
            "integer": False,
            "class": "numeric",
            "missing_rules": {},
            "missing_reasons": {"No Data": -1},
            "subvariables": subs,
        },
    }


def main():
    A = ["a1", "a2"]
    M = ["m1", "m2", "m3", "m4"]
    S = ["S1", "S2"]
    shape = (len(A) + 1, len(M), 3, len(S))  # stored: CAT, MR_SUBVAR, MR_CAT, NUM_ARR
    means = np.arange(np.prod(shape), dtype=float).reshape(shape) + 100
    valid = np.arange(np.prod(shape)).reshape(shape) + 1
    response = {
        "result": {
            "dimensions": [cat("A", A)] + mr("M", M),
            "measures": {
                "mean": {"data": means.ravel().tolist(), "n_missing": 0,
                         "metadata": meta(S)},
                "valid_count_unweighted": {"data": valid.ravel().tolist(),
                                           "n_missing": 0, "metadata": meta(S)},
            },
            "counts": [1] * (shape[0] * shape[1] * shape[2]),
            "n": 10,
            "missing": 0,
        }
    }
    cube = Cube(response)
    failures = []
    for k, partition in enumerate(cube.partitions):
        expected = means[: len(A), :, 0, k]  # valid cats x subvars, "Selected", item k
        observed = np.asarray(partition.means)
        if observed.shape != expected.shape or not np.allclose(observed, expected):
            failures.append(
                "partition %d (%s): observed %s, expected %s"
                % (k, partition.table_name, observed.tolist(), expected.tolist())
            )
    if failures:
        print("FAIL (dimension_order=%r)" % (cube._all_dimensions.dimension_order,))
        for failure in failures:
            print("  - " + failure)
        return 1
    print("PASS")
    return 0


if __name__ == "__main__":
    sys.exit(main())
