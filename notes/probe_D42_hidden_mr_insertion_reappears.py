"""Pre-existing C09 observation (unmodified library): a hidden MR insertion re-appears.

A derived MR subvariable ("MR insertion", a base element of the MR dimension) is hidden by
a copy of its insertion flagged `"hide": true` in the dimension transforms (this is how
tests/integration/test_cubepart.py::test_it_ignores_hidden_mr_insertions hides it). If the
same transforms also carry ANY element transform for that element (here: only a fill
colour, which says nothing about visibility), the hide request is silently dropped and the
element is displayed: `Elements.from_typedef` merges `{**hidden_xforms, **all_xforms}`, so
the element-transform dict replaces the `{"hide": True}` dict instead of being merged with
it. "Hidden iff asked" is violated: the element was asked to be hidden and is shown.

Prints PASS / exits 0 if the element stays hidden, FAIL / exits 1 otherwise.
"""

import json
import sys

from cr.cube.cube import Cube

FIXTURE = "/repo/tests/fixtures/mr_insertions/mr-x-cat.json"


def labels(transforms):
    with open(FIXTURE) as f:
        cube = Cube(json.load(f), transforms=transforms)
    return [str(x) for x in cube.partitions[0].row_labels]


def main():
    hide_insertion = {
        "function": "any_selected",
        "kwargs": {"variable": "mymrset", "subvariable_ids": ["bool1", "bool2"]},
        "anchor": "top",
        "name": "A&B",
        "hide": True,
    }
    plain = labels(None)
    hidden = labels({"rows_dimension": {"insertions": [hide_insertion]}})
    # --- find the key the derived element answers to, then give it a fill colour only
    with open(FIXTURE) as f:
        dim = Cube(json.load(f)).dimensions[0]
    ins_idx = plain.index("A&B")
    ins_id = dim.element_ids[ins_idx]
    hidden_and_filled = labels(
        {
            "rows_dimension": {
                "insertions": [hide_insertion],
                "elements": {ins_id: {"fill": "#ff0000"}},
            }
        }
    )
    print("no transforms            :", plain)
    print("insertion flagged hidden :", hidden)
    print("  + fill colour on it    :", hidden_and_filled, "(element key %r)" % (ins_id,))
    ok = "A&B" in plain and "A&B" not in hidden and "A&B" not in hidden_and_filled
    if ok:
        print("PASS")
        return 0
    print("FAIL: expected 'A&B' to stay hidden when a fill colour is added; observed", hidden_and_filled)
    return 1


if __name__ == "__main__":
    sys.exit(main())
