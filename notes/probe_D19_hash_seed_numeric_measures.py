"""D19 (C18): results depended on the interpreter's hash seed.

`Cube._available_numeric_measures` was `tuple(frozenset & set)`: enum members hash by name, names hash differently in every
process (PYTHONHASHSEED), so "the first numeric measure" - whose metadata supplies the sub-variable references of a
numeric-array cube and the default alias / name of an inflated one - changed from process to process.
Run: /venv/bin/python notes/probe_D19_hash_seed_numeric_measures.py   (exit 0 = same labels under every seed)
"""
import os
import subprocess
import sys

CODE = """
import json
from cr.cube.cube import Cube
d = json.load(open('/repo/tests/fixtures/numeric_arrays/num-arr-sums-with-nan-values.json'))
print(list(map(str, Cube(d).partitions[0].row_labels)))
"""
seen = set()
for seed in range(8):
    env = dict(os.environ, PYTHONHASHSEED=str(seed))
    out = subprocess.run([sys.executable, "-c", CODE], env=env, capture_output=True, text=True).stdout.strip()
    seen.add(out)
for s in sorted(seen):
    print(s)
print("PASS" if len(seen) == 1 else f"FAIL: {len(seen)} different results for the same response")
sys.exit(0 if len(seen) == 1 else 1)
