"""Pre-existing C13 violation (unmodified library): with overlap measures present and
`only_larger: False`, every column lists ITSELF in its pairwise index sets, because the
overlap p-vals report 0.0 (not 1.0) for a subvariable compared with itself and the
index-set thresholding only tests `p < alpha`.

Prints PASS / exit 0 if no column lists itself, FAIL / exit 1 otherwise.
"""
import json
import sys

from cr.cube.cube import Cube

FIXTURE = (
    "/repo/tests/fixtures/overlaps/cat-x-mr-gender-x-all-pets-owned.json"
)

with open(FIXTURE) as f:
    response = json.load(f)
transforms = {"pairwise_indices": {"alpha": [0.05, 0.13], "only_larger": False}}
slice_ = Cube(response, transforms=transforms).partitions[0]

bad = []
for name in ("pairwise_indices", "pairwise_indices_alt"):
    idx = getattr(slice_, name).tolist()
    for r, row in enumerate(idx):
        for c, cell in enumerate(row):
            if c in cell:
                bad.append((name, r, c, tuple(int(i) for i in cell)))

print("p-vals, selected column 0:", slice_.pairwise_significance_p_vals(0).tolist())
if bad:
    print("FAIL: columns listing themselves (measure, row, col, index set):")
    for b in bad:
        print("  ", b)
    sys.exit(1)
print("PASS")
