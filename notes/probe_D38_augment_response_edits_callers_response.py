# encoding: utf-8

"""Pre-existing (unmodified library) C18 observation: a single-column-filter response
that took part in a multi-cube CubeSet is rewritten in place by
`Cube.augment_response()` (elements list replaced by the summary cube's, counts
re-positioned). A further `Cube` built on that same response object afterwards no longer
reports what a fresh `Cube` on a pristine copy (or on the JSON text) of it reports.

Prints PASS / exits 0 if results agree, FAIL / exits 1 otherwise.
"""

import copy
import json
import sys

from cr.cube.cube import Cube, CubeSet


def text_dim(values):
    elements = [
        {"id": i, "missing": False, "value": value} for i, value in enumerate(values)
    ]
    elements.append({"id": -1, "missing": True, "value": {"?": -1}})
    return {
        "references": {"alias": "txt", "name": "Txt"},
        "type": {
            "class": "enum",
            "elements": elements,
            "subtype": {
                "class": "text",
                "missing_reasons": {"No Data": -1},
                "missing_rules": {},
            },
        },
    }


SUMMARY = {
    "result": {
        "counts": [1, 1, 1, 0],
        "measures": {"count": {"data": [1, 1, 1, 0]}},
        "dimensions": [text_dim(["A", "B", "C"])],
    }
}
FILTER = {
    "result": {
        "is_single_col_cube": True,
        "counts": [1, 1, 0],
        "measures": {"count": {"data": [1, 1, 0]}},
        "dimensions": [text_dim(["A", "C"])],
    }
}


def observe(response):
    strand = Cube(response).partitions[0]
    return {
        "row_labels": strand.row_labels.tolist(),
        "counts": strand.counts.tolist(),
    }


def main():
    expected = observe(copy.deepcopy(FILTER))

    summary, filter_ = copy.deepcopy(SUMMARY), copy.deepcopy(FILTER)
    cube_set = CubeSet([summary, filter_], [{}, {}], 1000, 0)
    [[p.counts for p in partition_set] for partition_set in cube_set.partition_sets]
    observed = observe(filter_)

    # --- the same history with JSON text responses, for comparison ---
    summary_json, filter_json = json.dumps(SUMMARY), json.dumps(FILTER)
    cube_set = CubeSet([summary_json, filter_json], [{}, {}], 1000, 0)
    [[p.counts for p in partition_set] for partition_set in cube_set.partition_sets]
    observed_json = observe(filter_json)

    if observed != expected or observed_json != expected:
        print("FAIL")
        print(f"  Cube(filter response dict) after its use in a CubeSet: {observed}")
        print(f"  Cube(filter response JSON) after its use in a CubeSet: {observed_json}")
        print(f"  fresh Cube on a pristine copy:                         {expected}")
        return 1
    print("PASS")
    return 0


if __name__ == "__main__":
    sys.exit(main())
