import copy, json, warnings
warnings.simplefilter("ignore")
from cr.cube.cube import CubeSet
def dim(vals):
    els=[{"id":i,"missing":False,"value":v} for i,v in enumerate(vals)]+[{"id":-1,"missing":True,"value":{"?":-1}}]
    return {"references":{"alias":"t","name":"t"},"type":{"class":"enum","elements":els,"subtype":{"class":"text","missing_reasons":{"No Data":-1},"missing_rules":{}}}}
def resp(vals,counts,single=False):
    r={"result":{"counts":counts,"measures":{"count":{"data":list(counts)}},"dimensions":[dim(vals)],"n":sum(counts)}}
    if single: r["result"]["is_single_col_cube"]=True
    return r
def build(wrap):
    rs=[resp(["A","B","C"],[1,1,1,0]), resp(["A","C"],[1,1,0],True)]
    rs=[wrap(copy.deepcopy(x)) for x in rs]
    return CubeSet(rs,[{},{}],1000,0)
for label,wrap in [("dict",lambda r:r),("envelope",lambda r:{"value":r}),("json",lambda r:json.dumps(r))]:
    try:
        cs=build(wrap); ps=cs.partition_sets
        print(label,[ [p.counts.tolist() for p in s] for s in ps])
    except Exception as e: print(label,"EXC",type(e).__name__,e)
