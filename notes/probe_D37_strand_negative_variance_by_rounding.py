"""Pre-existing C11 violation in the UNMODIFIED library (strand / 1-D cube).

A weighted 1-D CAT cube with 12 categories, one of them empty, and a subtotal that adds
up all the non-empty categories. The subtotal's table proportion is 1 (everybody in the
base is a member of the addends), so the variance of the indicator is 0 and std-dev,
std-err and MoE must be 0. `stripe/measure.py::_TableProportionVariances.subtotal_values`
computes `Ni = Nt - Np - Nn` from separate float sums without the floor-at-zero that the
matrix implementation got (commit f2fb0ef8), so Ni is -1 ulp, the variance is about
-2e-16 and `_Strand.table_proportion_stddevs / stderrs / moes` are NaN for the subtotal.
Prints FAIL and exits 1 when the violation is present.
"""

import math
import sys
import warnings

import numpy as np

from cr.cube.cube import Cube

warnings.simplefilter("ignore")

COUNTS = [
    6.022391763796257, 9.62423093124381, 0.7226526552987678, 4.999728236586185,
    7.440974792826482, 1.772267404746588, 0.0, 0.6289549845497133,
    7.258808637757768, 0.8776788675948677, 3.950917083579676, 8.735226311207322,
]
ADDEND_IDS = [i + 1 for i, c in enumerate(COUNTS) if c != 0.0]

response = {
    "query": {
        "dimensions": [],
        "measures": {"count": {"args": [], "function": "cube_count"}},
        "weight": "weight-url",
    },
    "result": {
        "counts": [int(math.ceil(c)) for c in COUNTS],
        "dimensions": [
            {
                "derived": False,
                "references": {
                    "alias": "v",
                    "name": "v",
                    "view": {
                        "transform": {
                            "insertions": [
                                {
                                    "function": "subtotal",
                                    "name": "everybody",
                                    "anchor": "bottom",
                                    "args": ADDEND_IDS,
                                    "id": 1,
                                }
                            ]
                        }
                    },
                },
                "type": {
                    "categories": [
                        {"id": i + 1, "missing": False, "name": "c%d" % (i + 1),
                         "numeric_value": None}
                        for i in range(len(COUNTS))
                    ],
                    "class": "categorical",
                    "ordinal": False,
                },
            }
        ],
        "element": "crunch:cube",
        "measures": {
            "count": {
                "data": COUNTS,
                "metadata": {
                    "derived": True,
                    "references": {},
                    "type": {
                        "class": "numeric",
                        "integer": False,
                        "missing_reasons": {"No Data": -1},
                        "missing_rules": {},
                    },
                },
                "n_missing": 0,
            }
        },
        "missing": 0,
        "n": sum(int(math.ceil(c)) for c in COUNTS),
    },
}

strand = Cube(response).partitions[0]
failures = []
print("table_proportions[-1] =", repr(strand.table_proportions[-1]))
for name, values in (
    ("table_proportion_stddevs", strand.table_proportion_stddevs),
    ("table_proportion_stderrs", strand.table_proportion_stderrs),
    ("table_proportion_moes", strand.table_proportion_moes),
):
    observed = values[-1]  # the "bottom"-anchored subtotal row
    if not (observed >= 0 and abs(observed) <= 1e-7):
        failures.append("%s[-1]: observed %r, expected 0.0" % (name, observed))

if failures:
    print("FAIL")
    for f in failures:
        print("  " + f)
    sys.exit(1)
print("PASS")
sys.exit(0)
