"""D27 (C01): Cube.augment_response (padding a single-column filter cube of a multitable to the rows of the summary cube)
(A1) stored the padded UNWEIGHTED counts as the weighted count measure too, and (A2) zipped the positions of the non-missing
rows with ALL the counts, so a missing element that is not the last one shifted every later count onto another row.
Run: /venv/bin/python notes/probe_D27_augment_response_weights_and_pairing.py  (exit 0 = both hold)
"""
import sys

from cr.cube.cube import CubeSet


def dim(values, missing_at):
    els = []
    for i, v in enumerate(values):
        if i == missing_at:
            els.append({"id": i, "missing": True, "value": {"?": -1}})
        else:
            els.append({"id": i, "missing": False, "value": v})
    return {"type": {"class": "enum", "elements": els, "subtype": {"class": "text"}}, "references": {"alias": "t", "name": "T"}}


def resp(values, missing_at, counts, weighted, single_col=False):
    r = {"result": {"dimensions": [dim(values, missing_at)], "counts": counts, "measures": {"count": {"data": weighted, "n_missing": 0, "metadata": {"type": {"class": "numeric"}}}}, "n": sum(counts), "missing": 0}}
    if single_col:
        r["result"]["is_single_col_cube"] = True
    return r


summary = resp(["A", "B", "C", None], 3, [4, 5, 6, 1], [4.0, 5.0, 6.0, 1.0])
ok = True
# A1: weighted filter cube, missing last
f1 = resp(["A", "C", None], 2, [2, 3, 1], [2.5, 3.5, 1.5], single_col=True)
part = CubeSet([summary, f1], [{}, {}], None, 0).partition_sets[0][1]
got = part.counts.tolist()
print("A1 weighted counts:", got)
ok &= got == [2.5, 0.0, 3.5]
# A2: missing element first
f2 = resp([None, "A", "C"], 0, [7, 2, 3], [7, 2, 3], single_col=True)
part = CubeSet([summary, f2], [{}, {}], None, 0).partition_sets[0][1]
got = dict(zip(part.row_labels.tolist(), part.counts.tolist()))
print("A2 counts by label:", got)
ok &= got == {"A": 2.0, "B": 0.0, "C": 3.0}
print("PASS" if ok else "FAIL")
sys.exit(0 if ok else 1)
