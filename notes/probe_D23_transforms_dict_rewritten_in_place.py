# encoding: utf-8

"""Pre-existing C18 violation (unmodified library): a transforms dict that was already
used with one cube gives a different result when re-used with another cube.

The element-transform keys of an array (MR / CA-subvar) dimension are rewritten IN PLACE
to the subvariable aliases of the first cube that reads them; a second cube with other
subvariables can no longer resolve them and silently drops the transform.
Prints PASS / exit 0 if re-use == fresh evaluation, FAIL / exit 1 otherwise.
"""

import copy
import json
import os
import sys

from cr.cube.cube import Cube

FIXTURES = "/repo/tests/fixtures"


def _load(name):
    with open(os.path.join(FIXTURES, name)) as f:
        return json.load(f)


def main():
    pristine = {"rows_dimension": {"elements": {"1": {"hide": True}}}}
    resp_a = _load("simple-mr.json")
    resp_b = _load("mr-mean.json")

    # --- fresh evaluation of cube B on a pristine copy of the transforms
    fresh = Cube(copy.deepcopy(resp_b), transforms=copy.deepcopy(pristine))
    expected = list(fresh.partitions[0].row_labels)

    # --- the same transforms object first used with cube A, then with cube B
    shared = copy.deepcopy(pristine)
    list(Cube(copy.deepcopy(resp_a), transforms=shared).partitions[0].row_labels)
    observed = list(Cube(copy.deepcopy(resp_b), transforms=shared).partitions[0].row_labels)

    if observed != expected:
        print("FAIL")
        print(" fresh transforms : %s" % expected)
        print(" re-used transforms: %s" % observed)
        print(" transforms now    : %s" % shared)
        return 1
    print("PASS")
    return 0


if __name__ == "__main__":
    sys.exit(main())
