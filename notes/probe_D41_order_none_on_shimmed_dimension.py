# encoding: utf-8

"""Pre-existing (unmodified library) deviation from C07 found while reading the code.

`"order": None` in the transforms of a dimension means "no order transform": the unit
suite pins `_OrderSpec._order_dict` to read it as `{}` and on a categorical dimension the
partition shows payload order. On a dimension whose transforms are "shimmed" (MR_SUBVAR,
CA_SUBVAR, NUM_ARRAY, DATETIME) `_ElementIdShim.shimmed_dimension_transforms_dict` does
`shim.get("order", {}).get("element_ids")`, the `{}` default does not apply to a key that
is present with the value None, and every access to the partition raises AttributeError
instead of showing the base elements in payload order.

Secondary (reported, not counted): an anchor that is a string but neither a keyword nor a
number ("middle") raises ValueError in the collator (`int(anchor)`), although
`_Subtotals._position_crosswalk` documents "put on bottom if anchor is malformed".

Prints PASS / exits 0 when `"order": None` gives payload order on every dimension type
tried, prints FAIL / exits 1 otherwise.
"""

import copy
import json
import sys

from cr.cube.cube import Cube

FIXTURES = "/repo/tests/fixtures/"


def orders(response, transforms):
    part = Cube(copy.deepcopy(response), transforms=transforms).partitions[0]
    return part.row_order().tolist(), part.column_order().tolist()


def main():
    failures = []
    for fixture in ("cat-x-cat", "cat-x-mr", "mr-x-cat", "cat-x-datetime"):
        with open(FIXTURES + fixture + ".json") as f:
            response = json.load(f)
        types = tuple(str(t).split(".")[-1] for t in Cube(response).dimension_types)
        expected = orders(response, {})
        for key, dim_type in zip(("rows_dimension", "columns_dimension"), types):
            transforms = {key: {"order": None}}
            try:
                observed = orders(response, transforms)
            except Exception as e:  # noqa
                observed = "raises %s: %s" % (type(e).__name__, e)
            status = "ok  " if observed == expected else "FAIL"
            print(
                "%s %-15s %s (%s) order=None -> %r" % (status, fixture, key, dim_type, observed)
            )
            if observed != expected:
                failures.append((fixture, key, dim_type, observed, expected))

    # --- secondary, informational only ---
    with open(FIXTURES + "cat-x-cat.json") as f:
        response = json.load(f)
    insertion = {
        "function": "subtotal",
        "name": "S",
        "args": [1, 2],
        "anchor": "middle",
        "id": 1,
    }
    try:
        observed = orders(response, {"rows_dimension": {"insertions": [insertion]}})[0]
    except Exception as e:  # noqa
        observed = "raises %s: %s" % (type(e).__name__, e)
    print("info: malformed anchor 'middle' -> %r (bottom would be [0, 1, -1])" % (observed,))

    if failures:
        print("FAIL: %d dimension(s) do not show payload order for order=None" % len(failures))
        for fixture, key, dim_type, observed, expected in failures:
            print(
                "  - %s %s (%s): observed %r, expected (row order, column order) %r"
                % (fixture, key, dim_type, observed, expected)
            )
        return 1
    print("PASS")
    return 0


if __name__ == "__main__":
    sys.exit(main())
