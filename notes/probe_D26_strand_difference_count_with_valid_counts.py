# encoding: utf-8

"""Pre-existing (unmodified library) C04 observation, optional / secondary.

C04 says: "in a response that carries valid counts for a numeric measure a difference's
count is NaN instead". The 2-D path (_Slice) honours that (CubeMeasures passes
diff_nans=True to SumSubtotals), the 1-D path (_Strand) does not: stripe SumSubtotals has
no such switch, so the same difference shows addends - subtrahends.

Prints PASS / exits 0 when the 1-D difference count is NaN, FAIL / exits 1 otherwise.
"""

import json
import sys

import numpy as np

from cr.cube.cube import Cube

FIXTURES = "/repo/tests/fixtures/"

DIFF = {
    "function": "subtotal",
    "name": "a-b",
    "args": [1],
    "kwargs": {"negative": [2]},
    "anchor": "bottom",
}


def main():
    # --- 1-D: CAT stripe with sum + valid counts ---
    with open(FIXTURES + "cat-sum.json") as f:
        response = json.load(f)
    strand = Cube(
        response, transforms={"rows_dimension": {"insertions": [DIFF]}}
    ).partitions[0]
    (idx,) = strand.inserted_row_idxs
    strand_value = strand.unweighted_counts[idx]

    # --- 2-D: CAT x MR with sum + valid counts, same difference on the rows ---
    with open(FIXTURES + "cat-sum-x-mr.json") as f:
        response = json.load(f)
    slice_ = Cube(
        response, transforms={"rows_dimension": {"insertions": [DIFF]}}
    ).partitions[0]
    (idx2,) = slice_.inserted_row_idxs
    slice_values = slice_.unweighted_counts[idx2]

    print("2-D difference row counts (valid-counts response):", slice_values.tolist())
    print("1-D difference row count  (valid-counts response):", float(strand_value))
    if np.isnan(strand_value):
        print("PASS: 1-D difference count is NaN like the 2-D one")
        return 0
    print(
        "FAIL: with valid counts in the response the 2-D difference count is NaN but the "
        "1-D difference count is addends - subtrahends = %s" % strand_value
    )
    return 1


if __name__ == "__main__":
    sys.exit(main())
