"""dev helper: apply one corpus variant to a scratch copy and run the given checks on it (prints findings)."""
import os, shutil, subprocess, sys, tempfile
sys.path.insert(0, os.path.dirname(os.path.dirname(os.path.abspath(__file__))))
from cubeverif.selftest import apply_variant, VERIF_ROOT
from cubeverif.selftest_corpus import V
vid, props = sys.argv[1], sys.argv[2:]
v = [x for x in V if x["id"] == vid][0]
tmp = tempfile.mkdtemp(prefix="cubeverif_tv_")
try:
    print(apply_variant("/repo", v, tmp))
    for p in props or ([v["prop"]] if isinstance(v["prop"], str) else v["prop"]):
        r = subprocess.run([sys.executable, "-m", "cubeverif.cli", p, "quick", "--repo", tmp], cwd=VERIF_ROOT, env=dict(os.environ, CUBEVERIF_SELFTEST="1"), capture_output=True, text=True)
        print(p, "rc", r.returncode)
        print("\n".join(l[:600] for l in r.stdout.splitlines() if l.startswith(("FINDING", "UNDECIDED", "ANALYSIS", "VIOLATION"))))
        print(r.stderr[-1500:])
finally:
    shutil.rmtree(tmp, ignore_errors=True)
