#!/usr/bin/env python3
"""tools/show_obligations.py <Cxx> [substring] [--repo DIR]  - dev helper: print the obligations of one property run."""
import importlib, sys
sys.path.insert(0, "/verif")
from cubeverif.core import Ctx
args = sys.argv[1:]
repo = "/repo"
if "--repo" in args:
    i = args.index("--repo"); repo = args[i + 1]; del args[i:i + 2]
prop = args[0]
sub = args[1] if len(args) > 1 else ""
mod = importlib.import_module(f"cubeverif.rules.{prop.lower()}")
ctx = Ctx(prop, "quick", repo)
mod.run(ctx)
for o in ctx.obligations:
    t = f"{o.status:9} {o.rule} :: {o.construct} :: {str(getattr(o,'derived',''))[:300]} || expected {str(getattr(o,'expected',''))[:200]}"
    if sub in t:
        print(t)
