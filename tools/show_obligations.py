#!/usr/bin/env python3
"""tools/show_obligations.py <Cxx> [substring]  - dev helper: print the obligations of one property run on /repo."""
import importlib, sys
sys.path.insert(0, "/verif")
from cubeverif.core import Ctx
prop = sys.argv[1]
sub = sys.argv[2] if len(sys.argv) > 2 else ""
mod = importlib.import_module(f"cubeverif.rules.{prop.lower()}")
ctx = Ctx(prop, "quick", "/repo")
mod.run(ctx)
for o in ctx.obligations:
    t = f"{o.status:9} {o.rule} :: {o.construct} :: {str(getattr(o,'derived',''))[:160]}"
    if sub in t:
        print(t)
