import ast,pathlib,sys
class Ren(ast.NodeTransformer):
    def __init__(s,names): s.names=names
    def visit_Name(s,n):
        if n.id in s.names: n.id=n.id+"_x"
        return n
def params(fn):
    out=set()
    for n in ast.walk(fn):
        if isinstance(n,(ast.FunctionDef,ast.Lambda)):
            a=n.args
            for x in a.posonlyargs+a.args+a.kwonlyargs: out.add(x.arg)
            if a.vararg: out.add(a.vararg.arg)
            if a.kwarg: out.add(a.kwarg.arg)
    return out
def process(fn):
    ps=params(fn)
    stored={n.id for n in ast.walk(fn) if isinstance(n,ast.Name) and isinstance(n.ctx,ast.Store)}
    glob={x for n in ast.walk(fn) if isinstance(n,(ast.Global,ast.Nonlocal)) for x in n.names}
    names=stored-ps-glob
    Ren(names).visit(fn)
    return len(names)
tot=0
for p in pathlib.Path('src/cr/cube').rglob('*.py'):
    t=ast.parse(p.read_text())
    for node in t.body:
        if isinstance(node,ast.FunctionDef): tot+=process(node)
        elif isinstance(node,ast.ClassDef):
            fns=[b for b in node.body if isinstance(b,ast.FunctionDef)]
            for f in fns: tot+=process(f)
            mn={f.name for f in fns}
            others=[b for b in node.body if not isinstance(b,ast.FunctionDef)]
            late=[b for b in others if any(isinstance(x,ast.Name) and x.id in mn for x in ast.walk(b))]
            early=[b for b in others if b not in late]
            node.body=early+fns[::-1]+late
    p.write_text(ast.unparse(t)+"\n")
print("renamed",tot)
