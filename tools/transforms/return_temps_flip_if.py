import ast,pathlib
cnt={"ret":0,"flip":0}
class T(ast.NodeTransformer):
    def visit_FunctionDef(self,fn):
        self.generic_visit(fn)
        fn.body=self.block(fn.body)
        return fn
    def block(self,stmts):
        out=[]
        for st in stmts:
            for f in ("body","orelse","finalbody"):
                if hasattr(st,f) and isinstance(getattr(st,f),list) and getattr(st,f) and isinstance(getattr(st,f)[0],ast.stmt) and not isinstance(st,(ast.FunctionDef,ast.ClassDef)):
                    setattr(st,f,self.block(getattr(st,f)))
            if isinstance(st,ast.Try):
                for h in st.handlers: h.body=self.block(h.body)
            if isinstance(st,ast.Return) and st.value is not None and not isinstance(st.value,(ast.Name,ast.Constant)):
                cnt["ret"]+=1
                out.append(ast.Assign(targets=[ast.Name(id="result_",ctx=ast.Store())],value=st.value,lineno=0))
                out.append(ast.Return(value=ast.Name(id="result_",ctx=ast.Load())))
                continue
            if isinstance(st,ast.If) and st.orelse and not (len(st.orelse)==1 and isinstance(st.orelse[0],ast.If)):
                cnt["flip"]+=1
                st=ast.If(test=ast.UnaryOp(op=ast.Not(),operand=st.test),body=st.orelse,orelse=st.body)
            out.append(st)
        return out
for p in pathlib.Path('src/cr/cube').rglob('*.py'):
    t=ast.parse(p.read_text())
    t=T().visit(t)
    ast.fix_missing_locations(t)
    p.write_text(ast.unparse(t)+"\n")
print(cnt)
