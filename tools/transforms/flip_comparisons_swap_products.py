import ast,pathlib
FL={ast.Lt:ast.Gt,ast.Gt:ast.Lt,ast.LtE:ast.GtE,ast.GtE:ast.LtE,ast.Eq:ast.Eq,ast.NotEq:ast.NotEq}
cnt={"cmp":0,"mul":0}
def pure(e):
    # operands whose evaluation order does not matter: no calls
    return not any(isinstance(n,(ast.Call,ast.Await,ast.Yield,ast.NamedExpr)) for n in ast.walk(e))
class T(ast.NodeTransformer):
    def visit_Compare(self,n):
        self.generic_visit(n)
        if len(n.ops)==1 and type(n.ops[0]) in FL and pure(n.left) and pure(n.comparators[0]):
            cnt["cmp"]+=1
            return ast.Compare(left=n.comparators[0],ops=[FL[type(n.ops[0])]()],comparators=[n.left])
        return n
    def visit_BinOp(self,n):
        self.generic_visit(n)
        if isinstance(n.op,ast.Mult) and pure(n.left) and pure(n.right):
            cnt["mul"]+=1
            return ast.BinOp(left=n.right,op=n.op,right=n.left)
        return n
for p in pathlib.Path('src/cr/cube').rglob('*.py'):
    t=T().visit(ast.parse(p.read_text()))
    ast.fix_missing_locations(t)
    p.write_text(ast.unparse(t)+"\n")
print(cnt)
