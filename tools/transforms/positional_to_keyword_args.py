"""Every call of a package function / method / constructor whose callee is UNIQUE by name in the package gets its positional
arguments rewritten as keyword arguments (`_Subtotals(dicts, elements)` -> `_Subtotals(insertion_dicts=dicts,
valid_elements=elements)`).  The repository's unit tests assert mocked call signatures and cannot validate this copy;
behaviour is preserved by construction (unique callee, no *args / **kwargs, all parameters named)."""
import ast,pathlib
files={p:ast.parse(p.read_text()) for p in pathlib.Path('src/cr/cube').rglob('*.py')}
defs={}   # name -> list of (params, is_method)
classes={}
for t in files.values():
    for n in ast.walk(t):
        if isinstance(n,ast.ClassDef):
            classes.setdefault(n.name,[]).append(n)
            for f in n.body:
                if isinstance(f,ast.FunctionDef):
                    a=f.args
                    if a.vararg or a.kwarg or a.posonlyargs: ps=None
                    else: ps=[x.arg for x in a.args]
                    static=any(isinstance(d,ast.Name) and d.id=="staticmethod" for d in f.decorator_list)
                    prop=any((isinstance(d,ast.Name) and d.id in("lazyproperty","property")) for d in f.decorator_list)
                    if prop: continue
                    defs.setdefault(f.name,[]).append((ps, not static))
    for f in t.body:
        if isinstance(f,ast.FunctionDef):
            a=f.args
            ps=None if (a.vararg or a.kwarg or a.posonlyargs) else [x.arg for x in a.args]
            defs.setdefault(f.name,[]).append((ps, False))
cnt=0
class T(ast.NodeTransformer):
    def visit_Call(self,n):
        global cnt
        self.generic_visit(n)
        if not n.args or any(isinstance(a,ast.Starred) for a in n.args) or any(k.arg is None for k in n.keywords): return n
        params=None
        if isinstance(n.func,ast.Attribute) and not n.func.attr.startswith("__") and isinstance(n.func.value,ast.Name) and (n.func.value.id in ("self","cls") or n.func.value.id in classes):
            d=defs.get(n.func.attr,[])
            if len(d)==1 and d[0][0] is not None:
                ps,is_m=d[0]
                params=ps[1:] if is_m else ps
        elif isinstance(n.func,ast.Name):
            if n.func.id in classes and len(classes[n.func.id])==1:
                init=[f for f in classes[n.func.id][0].body if isinstance(f,ast.FunctionDef) and f.name=="__init__"]
                # inherited __init__: skip
                if init and not (init[0].args.vararg or init[0].args.kwarg):
                    params=[x.arg for x in init[0].args.args][1:]
            elif n.func.id in defs and len(defs[n.func.id])==1 and defs[n.func.id][0][0] is not None and not defs[n.func.id][0][1]:
                params=defs[n.func.id][0][0]
        if params is None or len(n.args)>len(params): return n
        used={k.arg for k in n.keywords}
        names=params[:len(n.args)]
        if used & set(names): return n
        n.keywords=[ast.keyword(arg=nm,value=a) for nm,a in zip(names,n.args)]+n.keywords
        n.args=[]
        cnt+=1
        return n
for p,t in files.items():
    t=T().visit(t); ast.fix_missing_locations(t)
    p.write_text(ast.unparse(t)+"\n")
print("calls rewritten",cnt)
