import ast,pathlib
files={p:ast.parse(p.read_text()) for p in pathlib.Path('src/cr/cube').rglob('*.py')}
kw=set()
for t in files.values():
    for n in ast.walk(t):
        if isinstance(n,ast.Call):
            for k in n.keywords:
                if k.arg: kw.add(k.arg)
cnt=0
class Ren(ast.NodeTransformer):
    def __init__(s,m): s.m=m
    def visit_Name(s,n):
        if n.id in s.m: n.id=s.m[n.id]
        return n
    def visit_arg(s,n):
        if n.arg in s.m: n.arg=s.m[n.arg]
        return n
for p,t in files.items():
    for fn in [n for n in ast.walk(t) if isinstance(n,ast.FunctionDef)]:
        if not fn.name.startswith("_") or fn.name.startswith("__"): continue
        a=fn.args
        names=[x.arg for x in a.posonlyargs+a.args+a.kwonlyargs if x.arg not in("self","cls") and x.arg not in kw]
        # nested functions that rebind the same name: skip those names
        inner={x.arg for sub in ast.walk(fn) if sub is not fn and isinstance(sub,(ast.FunctionDef,ast.Lambda)) for x in sub.args.args}
        names=[n for n in names if n not in inner]
        if not names: continue
        m={n:n+"_p" for n in names}
        cnt+=len(m)
        Ren(m).visit(fn)
    p.write_text(ast.unparse(t)+"\n")
print("params renamed",cnt)
