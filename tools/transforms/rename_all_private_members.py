"""Every private member (method, property, field, module-level function) whose name appears in no string is renamed package-wide
(`_x` -> `_x_r`).  NOT in the default list of tools/run_transforms.sh: the rules are anchored on member names, so the
expected outcome is ANALYSIS-ERROR (exit 2, "anchor vanished") for every check and NEVER a VIOLATION line - verified
2026-10-04: 196 names renamed, 20 x exit 2, 0 violations (run with TRANSFORMS=rename_all_private_members; the
repository's own unit tests mock private names and cannot validate this copy, the partitions of the first 60 fixtures
were evaluated instead)."""
import ast,pathlib
files={p:ast.parse(p.read_text()) for p in pathlib.Path('src/cr/cube').rglob('*.py')}
defined=set()
for t in files.values():
    for n in ast.walk(t):
        if isinstance(n,ast.FunctionDef) and n.name.startswith('_') and not n.name.startswith('__'): defined.add(n.name)
        if isinstance(n,ast.Attribute) and isinstance(n.ctx,ast.Store) and n.attr.startswith('_') and not n.attr.startswith('__'): defined.add(n.attr)
strs=set()
for t in files.values():
    for n in ast.walk(t):
        if isinstance(n,ast.Constant) and isinstance(n.value,str):
            for d in defined:
                if d in n.value: strs.add(d)
defined-=strs
defined-={"_asdict","_replace","_fields"}
class R(ast.NodeTransformer):
    def visit_FunctionDef(s,n):
        s.generic_visit(n)
        if n.name in defined: n.name+="_r"
        return n
    def visit_Attribute(s,n):
        s.generic_visit(n)
        if n.attr in defined: n.attr+="_r"
        return n
    def visit_Name(s,n):
        if n.id in defined: n.id+="_r"
        return n
for p,t in files.items():
    p.write_text(ast.unparse(R().visit(t))+"\n")
print(len(defined),"private names renamed;",len(strs),"kept (appear in strings)")
