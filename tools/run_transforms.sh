#!/bin/bash
# tools/run_transforms.sh [--tests]   -- development helper (not registered in MANIFEST)
# Whole-package BEHAVIOUR-PRESERVING rewrites of a scratch copy of /repo (ast round trip; every local renamed and the
# methods of every class reversed; every `return E` through a temporary and every if/else flipped; every parameter
# of a private function renamed).  With --tests the repository's suite is run on the copy first (it must still give
# 2163 passed / 1 failed).  All 20 checks must stay silent on every copy: a rule that fires here keys on a spelling.
set -u
V=/verif
rc=0
for t in ${TRANSFORMS:-none alpha_rename_reverse_methods return_temps_flip_if rename_private_params flip_comparisons_swap_products positional_to_keyword_args}; do
  S=$(mktemp -d /tmp/cv_tr_XXXX)
  rsync -a --exclude .git /repo/ "$S"/
  if [ "$t" = none ]; then
    (cd "$S" && /venv/bin/python - <<'PY'
import ast, pathlib
for p in pathlib.Path('src/cr/cube').rglob('*.py'):
    p.write_text(ast.unparse(ast.parse(p.read_text())) + "\n")
PY
)
  else
    (cd "$S" && /venv/bin/python $V/tools/transforms/$t.py >/dev/null)
  fi
  if [ "${1:-}" = --tests ]; then
    (cd "$S" && /venv/bin/python - "$S" <<'PY' | tail -1
import sys, runpy
import cr
cr.__path__.insert(0, sys.argv[1] + "/src/cr")
sys.argv = ["pytest", "-q", "-p", "no:cacheprovider", "tests"]
runpy.run_module("pytest", run_name="__main__", alter_sys=True)
PY
)
  fi
  bad=""
  for i in $(seq -w 1 20); do
    out=$(cd $V && CUBEVERIF_SELFTEST=1 ./check C$i quick --repo "$S" 2>&1); r=$?
    n=$(echo "$out" | grep -c '^VIOLATION')
    if [ $r -ne 0 ] || [ "$n" -ne 0 ]; then bad="$bad C$i(exit=$r,violations=$n)"; rc=1; fi
  done
  echo "transform=$t alarms:${bad:- none}"
  rm -rf "$S"
done
exit $rc
