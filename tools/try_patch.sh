#!/bin/bash
# tools/try_patch.sh <patch.diff> <prop> [<prop> ...]   -- apply a patch to /repo, run the quick checks, undo.
# development helper only (not registered in MANIFEST)
P="$1"; shift
cd /repo || exit 2
if ! git diff --quiet; then echo "/repo has uncommitted changes; refusing"; exit 2; fi
git apply "$P" || { echo "patch does not apply"; exit 2; }
for prop in "$@"; do
  out=$(cd /verif && ./check "$prop" quick 2>&1); rc=$?
  echo "$out" | grep -E "^(VIOLATION|FINDING|   derived|   expected|UNDECIDED|ANALYSIS-ERROR|C[0-9]+ quick)" | cut -c1-300
  echo "  -> $prop exit=$rc"
done
git checkout -- .
