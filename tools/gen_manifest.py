#!/usr/bin/env python3
"""Generate MANIFEST.json from the per-property table below (development helper)."""
import json, os
HERE = os.path.dirname(os.path.dirname(os.path.abspath(__file__)))
CLAIMED = {
 "C01": ("must-pass-through of the valid-element grid and reshape (def-use resolver), axis-order decision table over cube shapes, measure-presence lint, sibling dict->NaN lint, AXIS axis-role abstract interpretation, FLOW provenance; EFFECTS: payload arrays never written by the layers that receive them; EFFECTS with origin of the written object (no layer writes into what comes from the cube-measure layer); nested missing-marker contradiction rule; element-value type-test lint; decision table of the count measure each Cube accessor hands out; tolerance-comparison lint over the payload readers; list slots addressed by position, not id", "4 C01 and 8"),
 "C02": ("AXIS axis-role abstract interpretation vs one eligibility rule; block templates; definedness decision tables over DIMENSION_TYPE; mask comparand dataflow; FLOW provenance; constructor-setting forwarding of rebuilt cubes; lint scope closed over private helpers (int casts, extent-guessed orientation); 0-D table base provenance; decision table of the unweighted count source; positional provenance of Element.index (typedef order)", "4 C02 and 8"),
 "C03": ("block templates + rational normal form (NORM); AXIS containment/partition; index-space lints (position of a filtered list); EFFECTS scoped to the proportion classes; iteration-domain rule: each element enters a subtotal at most once; (dimension type x transforms) table of the subtotal-free types", "4 C03 and 8"),
 "C04": ("symbolic subtotal algebra; valid-element dependence of the term sets; index-array store / pairwise fancy-index / filtered-position lints; flag and NaN-class tables; payload/display typing of zip with helper parameters bound to call-site arguments; DECTAB over abstract index-set classes and dimension types; iteration-domain rule (terms once); DECTAB over DIMENSION_TYPE of the subtotal-free types; EFFECTS scoped to insertion blocks; decision table NaN-flag vs source of the counts over the count measures present", "4 C04 and 8"),
 "C05": ("FLOW non-interference; payload/display coordinate typing incl. elementwise arithmetic and zip; reductions over assembled arrays (display-reduction dataflow lint); ORDERKIT de-duplication idioms; order-index sign lint; rendering typestate; payload-only operands of smoothers, order-sensitive numpy operations and collators; position-parameter truthiness (helper parameters bound to loop counters at call sites)", "4 C05 and 8"),
 "C06": ("decision tables (slice expression, strand factory over every dimension type), must-pass-through of the slice expression, valid-element index space of the partition index, guard dominance of the cube-set edits, argument/parameter agreement (keyword-aware); payload-value truthiness lint; sibling-partition read lint (positive control)", "4 C06 and 8"),
 "C07": ("ordering-key lattice; DECTAB anchor table; ORDERKIT recogniser of the explicit-order algorithm; truth-tested positions (def-use lint); order-index sign lint; rendering index-space agreement; payload-space operands of collator / order-helper calls (coordinate typing); EFFECTS over the id shim (transforms rewritten in a copy); nullable-key contradiction among readers of the transforms", "4 C07 and 8"),
 "C08": ("keyword->measure tables vs public properties up to monotone maps; NaN-bucket / direction recognisers through helpers; accidental-ValueError lint under the swallowing fallback; exception-type lint; statement-level rule: lazy sort values are evaluated inside the try body of the fallback; quantised-sort-key lint; EFFECTS over the id shim", "4 C08 and 8"),
 "C09": ("FLOW provenance and dependence of the pruning decision; AXIS support of pruning bases; must-pass-through of the hidden filter over summarised orders; order-index sign lint; DECTAB over DIMENSION_TYPE of the subtotal-free types; name-agnostic hidden-filter recogniser; model execution of Elements.from_typedef (insertion-level hide survives element transforms); source of the empties handed to a collator", "4 C09 and 8"),
 "C10": ("mirror comparison under the transposition rewrite T (AXIS normal forms, canonicalised and orientation-specialised expressions) + FLOW read-set equality of row/column twins; extent-guessed-orientation lint over every comparison, orientation operation followed into helpers; decision table of the row / column order-helper dispatch under the transposition renaming; filtered-position lint over the subtotal modules", "4 C10 and 8"),
 "C11": ("rational normal form (NORM) identity of the three-term variance; block templates; pairwise fancy-index lint on the term counts; EFFECTS scoped to the variance classes; generic lints for int pre-allocation and `rows_x or columns_x`", "4 C11 and 8"),
 "C12": ("radical normal form (NORM) of the residual; guard classification by disjunct; arrangement invariance of the rank test; block argument pairing; EFFECTS scoped to the z-score / p-value classes", "4 C12 and 8"),
 "C13": ("NORM formulas + symbolic swap; NaN polarity of the threshold; effective-base presence (guard atoms); block/reference tables; must-pass-through of the display translation; AXIS overlap bases; block-structure mirror of the two column bases forming the effective base; guard conjunct classification of the squared-weight switch; sibling cross-check of marginals read off one line of a 2-D base; no mask between t and p narrower than ~isnan; axes of the overlap tensors restricted to valid elements", "4 C13 and 8"),
 "C14": ("NORM formulas of the scale statistics; structural axis/mask rules of the std-dev helpers; deviation-form (numerical stability) lint; median piecewise tests; statistic-truthiness lint; display-reduction dataflow lint on the numeric-value presence tests; truth tests of numeric VALUES (0 is a value) vs of a boolean array", "4 C14 and 8"),
 "C15": ("block-index rule on share-of-sum denominators; totals-last rule (NaN-skipping total never fed to NaN-propagating subtotals); signed-total lint (no order comparison of a sum with zero, no sign-destroying operation under the division line; helper functions inlined)", "4 C15 and 8"),
 "C16": ("AXIS on the four baseline variants; DECTAB cascade over the count measures present; valid-element index space of the table selection and single translation of the slice argument; NORM index formula; FLOW independence from display transforms; cache slots of factory-made public accessors", "4 C16 and 8"),
 "C17": ("NORM scaling formulas (aliases followed); sibling selection tables; difference blanking by axis (def-use) incl. tuple-as-index lint; index-space zip; DECTAB over abstract JSON shapes of the filter statistics", "4 C17 and 8"),
 "C18": ("EFFECTS write inventory keyed by class and written key with interprocedural parameter freshness; process-wide cache lint; retraction (DECTAB); descriptor / read-only-array / taint rules; masked writes into uninitialised (np.empty) buffers", "4 C18 and 8"),
 "C19": ("DECTAB decision list of the id translation over spelling classes and dimension models; composed late-translation and element-transform key models; must-pass-through of every reference slot; zip of a filtered with an unfiltered view of one list (members fully expanded); model execution of lookup tables built by statements, Python hashing semantics for malformed references; nullable-key contradiction among readers of the transforms", "4 C19 and 8"),
 "C20": ("decision tables of the smoothing guard and smoother factory; spec pass-through; taint of the smoothed blocks; FLOW provenance of the smoother's operand; dependence-footprint lint (arithmetic declined); smoothed-operand rule (no NaN masking, no quotient of smoothed series); which blocks of every smoothed variant pass through the smoother; result of smooth() used verbatim; smoothed variant minus smoothing == unsmoothed twin (measure-block references unfolded)", "4 C20 and 8"),
}
REASON_PENDING = "static check for this property is under construction in this session (design in DESIGN.md section 4); not claimed until it runs clean"
def main():
    props = [json.loads(l) for l in open(os.path.join(HERE, "properties.jsonl"))]
    checks, na = [], []
    for p in props:
        pid = p["id"]
        if pid in CLAIMED:
            tech, ref = CLAIMED[pid]
            checks.append({
                "property_id": pid,
                "quick_cmd": f"./check {pid} quick",
                "thorough_cmd": f"./check {pid} thorough",
                "evidence_file": f"/verif/evidence/{pid}.json",
                "replay_cmd_template": f"./check {pid} quick --replay {{path}}",
                "engine": "cubeverif",
                "level_claimed": {
                    "category": "other",
                    "text": "Static analysis of the parsed source on every run: the structural clauses of the property listed in DESIGN.md section 4 "
                            f"({pid}) are decided for all inputs at once (axis roles, block pairing, algebraic normal forms, provenance, decision tables); "
                            "the behaviour as a whole (numeric equality with data) is NOT decided and is listed under coverage.not_decided in the evidence.",
                    "design_ref": f"DESIGN.md section {ref}",
                },
                "level_note": "Trusted: CPython ast; cubeverif engines (symex/axes/normform/flow/dectab transfer functions for the numpy subset used); the spec tables in cubeverif/specs and rules written from the property statements. Assumes counts >= 0 and distinct element ids. Unknown idioms are reported UNDECIDED (exit code unchanged), vanished anchors as ANALYSIS-ERROR (exit 2).",
                "technique": "static analysis: " + tech,
            })
        else:
            na.append({"property_id": pid, "reason": REASON_PENDING})
    man = {
        "version": 1,
        "setup_cmd": "true",
        "hooks": {"guard": "CRUNCH_CUBE_VERIF", "enable": "none needed: pure source analysis, /repo is never imported or executed by a check",
                  "baseline_off_cmd": "cd /repo && /venv/bin/python -m pytest -q -p no:cacheprovider --timeout=900",
                  "source_commits": [], "add_only": True},
        "engines": [{"name": "cubeverif", "path": "/verif/cubeverif", "serves_properties": sorted(CLAIMED), "kind_free_text": "repository-specific static analyser (ast): symbolic summariser, axis-role abstract interpreter, rational normal forms, object-sensitive flow analysis, decision tables"}],
        "checks": checks,
        "not_applicable": na,
        "notes": "All checks are static (ast-based) and decide the structural clauses named in DESIGN.md; see known_findings.json for defects repaired by fix: commits and for recorded findings.",
    }
    json.dump(man, open(os.path.join(HERE, "MANIFEST.json"), "w"), indent=1)
    print(len(checks), "claimed;", len(na), "not applicable")
if __name__ == "__main__":
    main()
