#!/usr/bin/env python3
"""Generate MANIFEST.json from the per-property table below (development helper)."""
import json, os
HERE = os.path.dirname(os.path.dirname(os.path.abspath(__file__)))
CLAIMED = {
 "C01": ("must-pass-through + sibling lints (ast), AXIS axis-role abstract interpretation, FLOW provenance", "4 C01"),
 "C02": ("AXIS axis-role abstract interpretation vs one eligibility rule; block templates; FLOW provenance", "4 C02"),
 "C03": ("block templates + rational normal form (NORM); AXIS containment/partition; errstate and zero-base lints", "4 C03"),
 "C04": ("symbolic subtotal algebra; flag / NaN-class tables; DECTAB over abstract index-set classes (index truthiness)", "4 C04"),
 "C05": ("FLOW non-interference; coordinate-system (payload/display) typing; pairing tables; duplicate-free / rendering typestate lints", "4 C05"),
 "C06": ("decision tables, must-pass-through of the slice expression, argument/parameter position agreement (call-graph lint)", "4 C06"),
 "C07": ("ordering-key lattice; DECTAB anchor table; single normalisation point; rendering index-space agreement", "4 C07"),
 "C08": ("keyword->measure tables vs public properties up to monotone maps; value-position tables; fallback and exception-type lints", "4 C08"),
 "C09": ("FLOW provenance; AXIS support of pruning bases; symbolic comparison of hidden-set / subtotal rule", "4 C09"),
 "C10": ("mirror comparison under the transposition rewrite T (AXIS normal forms + canonicalised expressions)", "4 C10"),
 "C11": ("rational normal form (NORM) identity of the three-term variance; block templates", "4 C11"),
 "C12": ("radical normal form (NORM) of the residual; guard classification; block argument pairing", "4 C12"),
 "C13": ("NORM formulas + symbolic swap; block/reference tables; must-pass-through of the display translation; AXIS overlap bases", "4 C13"),
 "C14": ("NORM formulas of the scale statistics; orientation pairing; statistic-truthiness lint (median declined)", "4 C14"),
 "C15": ("block-index rule on share-of-sum denominators (reduction-block rule)", "4 C15"),
 "C16": ("AXIS on the four baseline variants; NORM index formula; FLOW independence from display transforms", "4 C16"),
 "C17": ("NORM scaling formulas; sibling selection tables; DECTAB over abstract JSON shapes of the filter statistics", "4 C17"),
 "C18": ("EFFECTS write inventory with freshness classification; retraction (DECTAB); descriptor / raw-array / taint lints", "4 C18"),
 "C19": ("DECTAB decision list of the id translation over spelling classes; must-pass-through of every reference slot", "4 C19"),
 "C20": ("guard table; wiring of smoothed variants; dependence-footprint lint (arithmetic declined)", "4 C20"),
}
REASON_PENDING = "static check for this property is under construction in this session (design in DESIGN.md section 4); not claimed until it runs clean"
def main():
    props = [json.loads(l) for l in open(os.path.join(HERE, "properties.jsonl"))]
    checks, na = [], []
    for p in props:
        pid = p["id"]
        if pid in CLAIMED:
            tech, ref = CLAIMED[pid]
            checks.append({
                "property_id": pid,
                "quick_cmd": f"./check {pid} quick",
                "thorough_cmd": f"./check {pid} thorough",
                "evidence_file": f"/verif/evidence/{pid}.json",
                "replay_cmd_template": f"./check {pid} quick --replay {{path}}",
                "engine": "cubeverif",
                "level_claimed": {
                    "category": "other",
                    "text": "Static analysis of the parsed source on every run: the structural clauses of the property listed in DESIGN.md section 4 "
                            f"({pid}) are decided for all inputs at once (axis roles, block pairing, algebraic normal forms, provenance, decision tables); "
                            "the behaviour as a whole (numeric equality with data) is NOT decided and is listed under coverage.not_decided in the evidence.",
                    "design_ref": f"DESIGN.md section {ref}",
                },
                "level_note": "Trusted: CPython ast; cubeverif engines (symex/axes/normform/flow/dectab transfer functions for the numpy subset used); the spec tables in cubeverif/specs and rules written from the property statements. Assumes counts >= 0 and distinct element ids. Unknown idioms are reported UNDECIDED (exit code unchanged), vanished anchors as ANALYSIS-ERROR (exit 2).",
                "technique": "static analysis: " + tech,
            })
        else:
            na.append({"property_id": pid, "reason": REASON_PENDING})
    man = {
        "version": 1,
        "setup_cmd": "true",
        "hooks": {"guard": "CRUNCH_CUBE_VERIF", "enable": "none needed: pure source analysis, /repo is never imported or executed by a check",
                  "baseline_off_cmd": "cd /repo && /venv/bin/python -m pytest -q -p no:cacheprovider --timeout=900",
                  "source_commits": [], "add_only": True},
        "engines": [{"name": "cubeverif", "path": "/verif/cubeverif", "serves_properties": sorted(CLAIMED), "kind_free_text": "repository-specific static analyser (ast): symbolic summariser, axis-role abstract interpreter, rational normal forms, object-sensitive flow analysis, decision tables"}],
        "checks": checks,
        "not_applicable": na,
        "notes": "All checks are static (ast-based) and decide the structural clauses named in DESIGN.md; see known_findings.json for defects repaired by fix: commits and for recorded findings.",
    }
    json.dump(man, open(os.path.join(HERE, "MANIFEST.json"), "w"), indent=1)
    print(len(checks), "claimed;", len(na), "not applicable")
if __name__ == "__main__":
    main()
