#!/usr/bin/env python3
"""Development helper: compute the FLOW dependency footprint (leaf read labels) of every measure of the two measure
collections (matrix SecondOrderMeasures, stripe StripeMeasures) - PRE-assembly, so the display order plays no part - on
the current tree and write cubeverif/specs/footprints.json.  The table is reviewed and committed; the checks compare
the tree they analyse against it (see rules/common.py::dependency_footprints)."""
import json, os, sys
sys.path.insert(0, os.path.dirname(os.path.dirname(os.path.abspath(__file__))))
from cubeverif.core import Ctx
from cubeverif.rules.common import measure_blocks_reads, slice_measures_obj, strand_measures_obj

def footprints(ctx):
    out = {}
    for tag, coll in (("matrix", slice_measures_obj(ctx)), ("stripe", strand_measures_obj(ctx))):
        ci = coll.cls
        names = sorted({n for c in ci.mro for n, m in c.members.items() if m.kind in ("lazyproperty", "property", "method") and not n.startswith("_")})
        for n in names:
            m = ctx.repo.lookup(ci, n)
            # parameterised measures (pairwise tests by selected column) are evaluated with an unknown argument
            out[f"{tag}.{n}"] = sorted(measure_blocks_reads(ctx, coll, n))
    return out

if __name__ == "__main__":
    root = sys.argv[1] if len(sys.argv) > 1 else "/repo"
    ctx = Ctx("C18", "quick", root)
    fp = footprints(ctx)
    p = os.path.join(os.path.dirname(os.path.dirname(os.path.abspath(__file__))), "cubeverif", "specs", "footprints.json")
    json.dump(fp, open(p, "w"), indent=0, sort_keys=True)
    print(len(fp), "measures;", sum(len(v) for v in fp.values()), "labels ->", p)
