#!/usr/bin/env python3
"""dev helper: run all 20 checks on scratch copies of /repo/src with each behaviour-preserving patch applied.
usage: tools/eval_neutral.py <dir with neutral_*.diff> [...]   -> prints every check that is not silent (rc != 0) and every UNDECIDED
"""
import concurrent.futures, glob, os, shutil, subprocess, sys, tempfile

VERIF = os.path.dirname(os.path.dirname(os.path.abspath(__file__)))
PROPS = os.environ.get("EVAL_PROPS", "").split() or [f"C{i:02d}" for i in range(1, 21)]


def one(patch):
    tmp = tempfile.mkdtemp(prefix="cubeverif_neu_")
    try:
        shutil.copytree("/repo/src", os.path.join(tmp, "src"))
        p = subprocess.run(["git", "apply", "--unsafe-paths", "-p1", patch], cwd=tmp, capture_output=True, text=True)
        if p.returncode != 0:
            return patch, "does not apply: " + p.stderr[:200], []
        res = []
        for prop in PROPS:
            r = subprocess.run([sys.executable, "-m", "cubeverif.cli", prop, "quick", "--repo", tmp], cwd=VERIF, env=dict(os.environ, CUBEVERIF_SELFTEST="1"), capture_output=True, text=True, timeout=600)
            lines = [l for l in r.stdout.splitlines() if l.startswith(("FINDING", "UNDECIDED", "ANALYSIS-ERROR"))]
            if r.returncode != 0 or lines:
                res.append((prop, r.returncode, lines[:4], r.stderr[-300:] if r.returncode not in (0, 1, 2) else ""))
        return patch, None, res
    finally:
        shutil.rmtree(tmp, ignore_errors=True)


def main():
    patches = []
    for d in sys.argv[1:]:
        patches += sorted(glob.glob(os.path.join(d, "neutral_*.diff"))) if os.path.isdir(d) else [d]
    alarms = und = 0
    with concurrent.futures.ProcessPoolExecutor(max_workers=8) as ex:
        for patch, err, res in ex.map(one, patches):
            tag = "/".join(patch.split("/")[-2:])
            if err:
                print(tag, "ERROR", err)
                continue
            bad = [r for r in res if r[1] != 0]
            u = [r for r in res if r[1] == 0]
            alarms += len(bad)
            und += len(u)
            print(tag, "ALARM" if bad else "silent", f"({len(u)} checks with undecided)" if u else "")
            for prop, rc, lines, err in res:
                for l in lines:
                    print("    ", prop, rc, l[:230])
                if err:
                    print("    ", prop, rc, err)
    print(f"patches={len(patches)} alarms={alarms} undecided-checks={und}")


if __name__ == "__main__":
    main()
