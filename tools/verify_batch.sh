#!/bin/bash
# dev helper: verify seeds sequentially against all 20 checks; prints a summary per seed
ALL="C01 C02 C03 C04 C05 C06 C07 C08 C09 C10 C11 C12 C13 C14 C15 C16 C17 C18 C19 C20"
for id in "$@"; do python3 /verif/tools/verify_seed.py $id /tmp/seed_out/$id $ALL > /tmp/seed_out/$id/verify.json 2>&1; /venv/bin/python - $id <<'PY'
import json,sys
sid=sys.argv[1]
try:
    r=json.load(open(f'/tmp/seed_out/{sid}/verify.json'))
except Exception as e:
    print(sid,'unparseable',open(f'/tmp/seed_out/{sid}/verify.json').read()[-800:]); sys.exit()
print(sid,'confirmed',r['confirmed'],'suite',r.get('suite_with_change'),'demo',r['demo_without_change']['exit'],r['demo_with_change']['exit'])
for p,v in r['checks_on_change'].items():
    if v['exit']!=0 or v['undecided']: print('  ',p,v['exit'],[f[:160] for f in v['findings'][:2]],[x[:160] for x in v['undecided'][:2]])
PY
done; git -C /repo status --short | head -3
