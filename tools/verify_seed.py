#!/usr/bin/env python3
"""Development helper: confirm a seeded change (patch + demo) in a scratch worktree, store it under
/verif/seeded/<id>/ and record which checks fire on it.

usage: tools/verify_seed.py <id> <source dir with patch.diff demo.py meta.json> [props to run ...]
"""
import json, os, re, shutil, subprocess, sys, tempfile

WTPY = "/tmp/vtools/wtpy"

def sh(cmd, cwd=None, timeout=900):
    p = subprocess.run(cmd, shell=True, cwd=cwd, capture_output=True, text=True, timeout=timeout)
    return p.returncode, p.stdout + p.stderr

def main():
    sid, src = sys.argv[1], sys.argv[2]
    props = sys.argv[3:] or [sid[:3]]
    wt = tempfile.mkdtemp(prefix=f"vt_{sid}_", dir="/tmp")
    os.rmdir(wt)
    rc, out = sh(f"git -C /repo worktree add -q {wt} HEAD")
    assert rc == 0, out
    rec = {"id": sid, "property": sid[:3]}
    try:
        demo_src = open(os.path.join(src, "demo.py")).read()
        demo_src = re.sub(r"/tmp/wt_\w+", "/repo", demo_src)
        demo = os.path.join(wt, "_seed_demo.py")
        open(demo, "w").write(demo_src)
        rc, out = sh(f"{WTPY} {wt} {demo}", cwd=wt)
        rec["demo_without_change"] = {"exit": rc, "tail": out.strip().splitlines()[-1:] }
        rc, out = sh(f"git apply {os.path.join(src, 'patch.diff')}", cwd=wt)
        rec["patch_applies_to_current_head"] = rc == 0
        if rc != 0:
            rec["apply_error"] = out[-300:]
            print(json.dumps(rec, indent=1)); return 1
        rc, out = sh(f"{WTPY} {wt} -m pytest -q -p no:cacheprovider tests -x --deselect tests/integration/test_cubepart.py::Test_LegacySlice::test_profiles_percentages_add_up_to_100", cwd=wt)
        rec["suite_with_change"] = out.strip().splitlines()[-1]
        rec["suite_passes_with_change"] = rc == 0
        rc, out = sh(f"{WTPY} {wt} {demo}", cwd=wt)
        rec["demo_with_change"] = {"exit": rc, "tail": out.strip().splitlines()[-1:]}
        rc, out = sh(f"{WTPY} {wt} -c \"import cr.cube.cube as c; print(c.__file__)\"", cwd=wt)
        rec["import_path_check"] = out.strip()
    finally:
        sh(f"git -C /repo worktree remove --force {wt}")
    confirmed = rec.get("suite_passes_with_change") and rec["demo_without_change"]["exit"] == 0 and rec["demo_with_change"]["exit"] != 0
    rec["confirmed"] = bool(confirmed)
    # which checks fire (on /repo itself: apply, run, undo)
    fired = {}
    rc, out = sh("git diff --quiet", cwd="/repo")
    assert rc == 0, "/repo dirty"
    rc, out = sh(f"git apply {os.path.join(src, 'patch.diff')}", cwd="/repo")
    try:
        for p in props:
            rc, out = sh(f"./check {p} quick", cwd="/verif")
            viol = [l for l in out.splitlines() if l.startswith("FINDING")]
            und = [l for l in out.splitlines() if l.startswith("UNDECIDED")]
            fired[p] = {"exit": rc, "findings": [v[:220] for v in viol][:6], "undecided": [x[:200] for x in und][:4]}
    finally:
        sh("git checkout -- .", cwd="/repo")
    rec["checks_on_change"] = fired
    if confirmed:
        dst = os.path.join("/verif/seeded", sid)
        os.makedirs(dst, exist_ok=True)
        shutil.copy(os.path.join(src, "patch.diff"), os.path.join(dst, "patch.diff"))
        open(os.path.join(dst, "demo.py"), "w").write(demo_src)
        meta = {}
        try:
            meta = json.load(open(os.path.join(src, "meta.json")))
        except Exception:
            pass
        meta_out = {
            "id": sid, "breaks_property": sid[:3],
            "summary": meta.get("summary"), "needs_to_manifest": meta.get("needs_to_manifest"),
            "files_touched": meta.get("files_touched"),
            "author": "independent sub-agent given only the property text and a scratch worktree",
            "confirmed_by": "tools/verify_seed.py in a fresh scratch worktree of /repo HEAD (removed afterwards)",
            "what_was_run": {
                "suite": f"/tmp/vtools/wtpy <worktree> -m pytest -q -p no:cacheprovider tests  ->  {rec['suite_with_change']}",
                "demo_without_change": rec["demo_without_change"], "demo_with_change": rec["demo_with_change"],
                "how_to_run_demo": "python demo.py against a tree with / without patch.diff applied (exit 0 = property holds, exit 1 = violated)",
            },
            "checks_on_change": fired,
        }
        json.dump(meta_out, open(os.path.join(dst, "meta.json"), "w"), indent=1)
    print(json.dumps(rec, indent=1))
    return 0

if __name__ == "__main__":
    sys.exit(main())
