#!/usr/bin/env python3
"""Development helper: for every breaking variant of the self-test corpus, run the pinned test suite on a
scratch copy with the variant applied and record whether the suite notices it
(-> cubeverif/selftest_suite_results.json).  usage: tools/measure_corpus.py <clean repo root> [workers]"""
import concurrent.futures, json, os, shutil, subprocess, sys, tempfile
sys.path.insert(0, os.path.dirname(os.path.dirname(os.path.abspath(__file__))))
from cubeverif.selftest_corpus import V
from cubeverif.selftest import apply_variant

ROOT = sys.argv[1]
WORKERS = int(sys.argv[2]) if len(sys.argv) > 2 else 8
SKIP = "tests/integration/test_cubepart.py::Test_LegacySlice::test_profiles_percentages_add_up_to_100"

def one(v):
    tmp = tempfile.mkdtemp(prefix="corpus_")
    try:
        why = apply_variant(ROOT, v, tmp)
        if why:
            return v["id"], {"skipped": why}
        shutil.copytree(os.path.join(ROOT, "tests"), os.path.join(tmp, "tests"))
        for f in ("setup.cfg", "tox.ini"):
            if os.path.exists(os.path.join(ROOT, f)):
                shutil.copy(os.path.join(ROOT, f), tmp)
        p = subprocess.run(["/tmp/vtools/wtpy", tmp, "-m", "pytest", "-q", "-p", "no:cacheprovider", "tests", "-x", "--deselect", SKIP],
                           cwd=tmp, capture_output=True, text=True, timeout=1200)
        tail = (p.stdout.strip().splitlines() or [""])[-1]
        return v["id"], {"suite_notices": p.returncode != 0, "tail": tail[:120]}
    finally:
        shutil.rmtree(tmp, ignore_errors=True)

def main():
    todo = [v for v in V if v["kind"] == "B"]
    out = {}
    with concurrent.futures.ThreadPoolExecutor(max_workers=WORKERS) as ex:
        for vid, r in ex.map(one, todo):
            out[vid] = r
            print(vid, r, flush=True)
    path = os.path.join(os.path.dirname(os.path.dirname(os.path.abspath(__file__))), "cubeverif", "selftest_suite_results.json")
    json.dump(out, open(path, "w"), indent=1, sort_keys=True)
    n = sum(1 for r in out.values() if r.get("suite_notices") is False)
    print(f"{n} of {len(out)} breaking variants are NOT noticed by the pinned suite")

if __name__ == "__main__":
    main()
